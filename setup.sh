#!/bin/sh
# Offline pre-build of every harness variant the checks use (each check rebuilds incrementally anyway).
set -e
cd "$(dirname "$0")"
export CARGO_NET_OFFLINE=true
exec python3 orch/setup.py
