#![no_main]
//! Coverage-guided op lists for the C03 lean driver (real Cli + hooks + invariants), ASan on,
//! debug assertions OFF so that a broken unchecked-op precondition becomes a real memory error.
use libfuzzer_sys::fuzz_target;

fuzz_target!(|data: &[u8]| {
    if let Some((cfg, ops)) = vcore::props::c03::decode_fuzz_input(data) {
        if let Err(e) = vcore::props::c03::lean_session_kind(&cfg, &ops) {
            panic!("C03 invariant: {} :: {}", e, vcore::session::encode_session(&cfg, &ops));
        }
    }
});
