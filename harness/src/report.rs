//! Per-shard result: event counters, distinct-situation sketch, samples, violations.
use crate::json::J;
use std::collections::{BTreeMap, HashSet};

#[derive(Clone, Debug)]
pub struct Violation {
    pub property: String,
    pub clause: String,
    pub tag: String,
    pub detail: String,
    /// self-contained replay descriptor (passed back to `vrun <wl> --replay-case`)
    pub replay: J,
    pub size: usize,
}

#[derive(Default)]
pub struct Report {
    pub counters: BTreeMap<String, u64>,
    pub distinct: HashSet<u64>,
    /// distinct situations known to be disjoint between shards (enumerations): just a count
    pub distinct_disjoint: u64,
    pub evaluations: u64,
    pub samples_short: Vec<(usize, J)>,
    pub samples_long: Vec<(usize, J)>,
    pub violations: Vec<Violation>,
    pub viol_counts: BTreeMap<String, u64>,
    pub inconclusive: Vec<String>,
    pub cases: u64,
    /// (case index, touched-facility mask, transcript hash) per session, for cross-build comparison (C16)
    pub transcripts: Vec<(u64, u32, u64)>,
}

impl Report {
    pub fn new() -> Self {
        Self::default()
    }
    #[inline]
    pub fn count(&mut self, k: &str) {
        self.count_n(k, 1)
    }
    pub fn count_n(&mut self, k: &str, n: u64) {
        if let Some(v) = self.counters.get_mut(k) {
            *v += n;
        } else {
            self.counters.insert(k.to_string(), n);
        }
    }
    #[inline]
    pub fn eval(&mut self) {
        self.evaluations += 1;
    }
    #[inline]
    pub fn seen(&mut self, h: u64) {
        self.distinct.insert(h);
    }
    pub fn sample(&mut self, size: usize, j: impl FnOnce() -> J) {
        // keep 3 shortest and 3 longest
        let need_short = self.samples_short.len() < 3 || size < self.samples_short.last().unwrap().0;
        let need_long = self.samples_long.len() < 3 || size > self.samples_long.last().unwrap().0;
        if !need_short && !need_long {
            return;
        }
        let v = j();
        if need_short {
            self.samples_short.push((size, v.clone()));
            self.samples_short.sort_by_key(|x| x.0);
            self.samples_short.truncate(3);
        }
        if need_long {
            self.samples_long.push((size, v));
            self.samples_long.sort_by_key(|x| std::cmp::Reverse(x.0));
            self.samples_long.truncate(3);
        }
    }
    pub fn inconclusive(&mut self, why: impl Into<String>) {
        let w = why.into();
        self.count(&format!("inconclusive:{}", w));
        if self.inconclusive.len() < 20 && !self.inconclusive.contains(&w) {
            self.inconclusive.push(w);
        }
    }
    /// Record a violation; de-duplicated on (property, clause, tag), keeping the 3 smallest witnesses.
    pub fn violation(&mut self, v: Violation) {
        let key = format!("{}|{}|{}", v.property, v.clause, v.tag);
        *self.viol_counts.entry(key.clone()).or_insert(0) += 1;
        let same: Vec<usize> = self
            .violations
            .iter()
            .enumerate()
            .filter(|(_, x)| format!("{}|{}|{}", x.property, x.clause, x.tag) == key)
            .map(|(i, _)| i)
            .collect();
        if same.len() < 3 {
            self.violations.push(v);
        } else {
            let (worst, wsize) = same
                .iter()
                .map(|&i| (i, self.violations[i].size))
                .max_by_key(|x| x.1)
                .unwrap();
            if v.size < wsize {
                self.violations[worst] = v;
            }
        }
    }
    pub fn to_json(&self) -> J {
        let mut counters = J::obj();
        for (k, v) in &self.counters {
            counters.put(k, J::Int(*v as i64));
        }
        let mut vc = J::obj();
        for (k, v) in &self.viol_counts {
            vc.put(k, J::Int(*v as i64));
        }
        let mut hashes: Vec<u64> = self.distinct.iter().copied().collect();
        hashes.sort_unstable();
        let truncated = hashes.len() > 400_000;
        let total_distinct = hashes.len();
        hashes.truncate(400_000);
        J::obj()
            .set("cases", J::Int(self.cases as i64))
            .set("evaluations", J::Int(self.evaluations as i64))
            .set("counters", counters)
            .set("distinct_local", J::Int(total_distinct as i64))
            .set("distinct_truncated", J::Bool(truncated))
            .set(
                "distinct_hashes",
                J::Arr(hashes.iter().map(|h| J::Str(format!("{:016x}", h))).collect()),
            )
            .set("distinct_disjoint", J::Int(self.distinct_disjoint as i64))
            .set(
                "samples",
                J::Arr(
                    self.samples_short
                        .iter()
                        .chain(self.samples_long.iter())
                        .map(|x| x.1.clone())
                        .collect(),
                ),
            )
            .set("violation_counts", vc)
            .set(
                "violations",
                J::Arr(
                    self.violations
                        .iter()
                        .map(|v| {
                            J::obj()
                                .set("property", J::s(&v.property))
                                .set("clause", J::s(&v.clause))
                                .set("tag", J::s(&v.tag))
                                .set("detail", J::s(&v.detail))
                                .set("size", J::Int(v.size as i64))
                                .set("replay", v.replay.clone())
                        })
                        .collect(),
                ),
            )
            .set(
                "transcripts",
                J::Arr(self.transcripts.iter().map(|t| J::Arr(vec![J::Int(t.0 as i64), J::Int(t.1 as i64), J::Str(format!("{:016x}", t.2))])).collect()),
            )
            .set(
                "inconclusive",
                J::Arr(self.inconclusive.iter().map(J::s).collect()),
            )
    }
}
