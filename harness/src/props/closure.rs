//! State-space closures of the real Editor (C05) and History (C10) in small buffers:
//! breadth-first over every reachable state of the real component, every operation applied in
//! every state and compared with the reference model.
use crate::json::{show_bytes, J};
use crate::refmodel::*;
use crate::report::Report;
use crate::rig::*;
use crate::runner::*;
use crate::sink::MonSink;
use embedded_cli::__verif::Editor;
use embedded_cli::command::RawCommand;
use std::collections::{HashSet, VecDeque};

const CH: [char; 4] = ['a', 'é', '€', '𐍈'];

#[derive(Clone, Copy, Debug, PartialEq, Eq)]
enum EOp {
    Ins(usize),
    Backspace,
    Left,
    Right,
}
const EOPS: [EOp; 7] = [EOp::Ins(0), EOp::Ins(1), EOp::Ins(2), EOp::Ins(3), EOp::Backspace, EOp::Left, EOp::Right];

fn apply_model(m: &mut RefEditor, op: EOp) -> bool {
    match op {
        EOp::Ins(i) => m.insert(CH[i]),
        EOp::Backspace => m.backspace(),
        EOp::Left => m.left(),
        EOp::Right => m.right(),
    }
}

fn eop_tag(op: EOp, st: &RefEditor) -> String {
    let inside = st.cursor < st.line.len();
    let full = st.byte_len() == st.cap;
    let o = match op {
        EOp::Ins(i) => format!("insert{}", CH[i].len_utf8()),
        EOp::Backspace => "backspace".into(),
        EOp::Left => "left".into(),
        EOp::Right => "right".into(),
    };
    format!("{}{}{}", o, if inside { "-inside" } else { "-end" }, if full { "-full" } else { "" })
}

/// C05 closure on the Editor component itself
pub fn run_c05_component(args: &Args, rep: &mut Report) {
    let maxcap: u64 = if args.thorough { 14 } else { 10 };
    run_cases(args, "C05", maxcap + 1, rep, &mut |cap, rep| {
        if !mine(args, cap) {
            rep.cases -= 1;
            return;
        }
        let cap = cap as usize;
        let mut seen: HashSet<(String, usize)> = HashSet::new();
        let mut q: VecDeque<RefEditor> = VecDeque::new();
        let start = RefEditor::new(cap);
        seen.insert((start.text(), 0));
        q.push_back(start);
        let mut transitions = 0u64;
        while let Some(st) = q.pop_front() {
            for op in EOPS {
                // rebuild the state on a fresh real editor
                let mut buf = vec![0x55u8; cap].into_boxed_slice();
                let mut ed = Editor::new(&mut buf[..]);
                let mut tmp = [0u8; 4];
                for c in &st.line {
                    if ed.insert(c.encode_utf8(&mut tmp)).is_none() {
                        report(rep, args, "C05", "closure", "rebuild-rejected", cap as u64, st.line.len(), J::s(st.text()), format!("capacity {}: rebuilding {:?} was rejected", cap, st.text()));
                        return;
                    }
                }
                for _ in st.cursor..st.line.len() {
                    ed.move_left();
                }
                let mut m = st.clone();
                let effective = apply_model(&mut m, op);
                match op {
                    EOp::Ins(i) => {
                        let r = ed.insert(CH[i].encode_utf8(&mut tmp)).map(|s| s.to_string());
                        if r.is_some() != effective {
                            report(rep, args, "C05", "closure", &eop_tag(op, &st), cap as u64, st.line.len(), J::s(st.text()), format!("capacity {}: inserting {:?} into {:?}/{}: accepted={} but the rule says {}", cap, CH[i], st.text(), st.cursor, r.is_some(), effective));
                        }
                    }
                    EOp::Backspace => {
                        if ed.move_left() {
                            ed.remove();
                        }
                    }
                    EOp::Left => {
                        ed.move_left();
                    }
                    EOp::Right => {
                        ed.move_right();
                    }
                }
                transitions += 1;
                rep.evaluations += 1;
                if effective {
                    rep.count("c05.closure.effective_transitions");
                } else {
                    rep.count("c05.closure.rejected_or_clamped_transitions");
                }
                let (raw, valid, cursor) = ed.verif_raw();
                let got = raw[..valid].to_vec();
                if got != m.text().as_bytes() || cursor != m.cursor {
                    report(rep, args, "C05", "closure", &eop_tag(op, &st), cap as u64, st.line.len(), J::s(format!("{}/{} {:?}", st.text(), st.cursor, op)), format!("capacity {}: {:?} on {:?}/{} gives {:?}/{}, ideal editor {:?}/{}", cap, op, st.text(), st.cursor, show_bytes(&got), cursor, m.text(), m.cursor));
                    continue;
                }
                if seen.insert((m.text(), m.cursor)) {
                    q.push_back(m);
                }
            }
        }
        rep.distinct_disjoint += seen.len() as u64;
        rep.count_n("c05.closure.states", seen.len() as u64);
        rep.count_n("c05.closure.transitions", transitions);
        rep.sample(cap, || J::s(format!("closure of Editor, capacity {}: {} states, {} transitions", cap, seen.len(), transitions)));
    });
}

/// C05 closure through Cli::process_byte (keys as bytes, state read through the hook)
pub fn run_c05_cli(args: &Args, rep: &mut Report) {
    let maxcap: u64 = if args.thorough { 10 } else { 7 };
    run_cases(args, "C05", maxcap + 1, rep, &mut |cap, rep| {
        if !mine(args, cap) {
            rep.cases -= 1;
            return;
        }
        let cap = cap as usize;
        let mut seen: HashSet<(String, usize)> = HashSet::new();
        let mut q: VecDeque<RefEditor> = VecDeque::new();
        let start = RefEditor::new(cap);
        seen.insert((start.text(), 0));
        q.push_back(start);
        let mut transitions = 0u64;
        while let Some(st) = q.pop_front() {
            for op in EOPS {
                let mut cmd = vec![0x55u8; cap].into_boxed_slice();
                let mut hist = vec![0u8; 0].into_boxed_slice();
                let sink = MonSink::new();
                let mut rig: Rig<'_, RawCommand<'static>> = Rig::build(&mut cmd, &mut hist, 1, false, sink, RecProc::new(vec![], None)).expect("build");
                let feed = |rig: &mut Rig<'_, RawCommand<'static>>, bytes: &[u8]| {
                    for &b in bytes {
                        rig.byte(b).expect("sink never fails");
                    }
                };
                let text = st.text();
                feed(&mut rig, text.as_bytes());
                for _ in st.cursor..st.line.len() {
                    feed(&mut rig, b"\x1b[D");
                }
                let mut m = st.clone();
                apply_model(&mut m, op);
                let mut tmp = [0u8; 4];
                match op {
                    EOp::Ins(i) => feed(&mut rig, CH[i].encode_utf8(&mut tmp).as_bytes()),
                    EOp::Backspace => feed(&mut rig, b"\x08"),
                    EOp::Left => feed(&mut rig, b"\x1b[D"),
                    EOp::Right => feed(&mut rig, b"\x1b[C"),
                }
                transitions += 1;
                rep.evaluations += 1;
                let e = rig.editor();
                if e.line != m.text().as_bytes() || e.cursor != m.cursor {
                    report(rep, args, "C05", "closure-cli", &eop_tag(op, &st), cap as u64, st.line.len(), J::s(format!("{}/{} {:?}", st.text(), st.cursor, op)), format!("capacity {}: {:?} on {:?}/{} gives {:?}/{}, ideal editor {:?}/{}", cap, op, st.text(), st.cursor, show_bytes(&e.line), e.cursor, m.text(), m.cursor));
                    continue;
                }
                if seen.insert((m.text(), m.cursor)) {
                    q.push_back(m);
                }
            }
        }
        rep.distinct_disjoint += seen.len() as u64;
        rep.count_n("c05.closure_cli.states", seen.len() as u64);
        rep.count_n("c05.closure_cli.transitions", transitions);
        rep.sample(cap, || J::s(format!("closure through Cli::process_byte, capacity {}: {} states, {} transitions", cap, seen.len(), transitions)));
    });
}

// ------------------------------------------------------------------ C10 closure on the History component

#[cfg(feature = "history")]
pub fn run_c10_component(args: &Args, rep: &mut Report) {
    use embedded_cli::__verif::History;
    let pool: Vec<&str> = if args.thorough { vec!["", "a", "b", "ab", "é", "abc", "abcd", "ba", "€"] } else { vec!["", "a", "b", "ab", "é", "abc", "abcd"] };
    let maxb: u64 = if args.thorough { 20 } else { 14 };
    let nops = pool.len() + 2;
    run_cases(args, "C10", maxb + 1, rep, &mut |b, rep| {
        if !mine(args, b) {
            rep.cases -= 1;
            return;
        }
        let budget = b as usize;
        // op ids: 0..pool.len() push, then older, newer
        type Key = (Vec<u8>, Option<usize>);
        let mut seen: HashSet<Key> = HashSet::new();
        let mut q: VecDeque<Vec<u8>> = VecDeque::new();
        seen.insert((vec![], None));
        q.push_back(vec![]);
        let mut transitions = 0u64;
        let mut bad = 0;
        while let Some(path) = q.pop_front() {
            for op in 0..nops {
                let mut buf = vec![0x55u8; budget].into_boxed_slice();
                let mut h = History::new(&mut buf[..]);
                let mut m = RefHistory::new(budget);
                let mut full = path.clone();
                full.push(op as u8);
                let mut ok = true;
                for (k, &o) in full.iter().enumerate() {
                    let last = k + 1 == full.len();
                    let o = o as usize;
                    if o < pool.len() {
                        h.push(pool[o]);
                        let info = m.submit(pool[o].as_bytes());
                        let (raw, used, _) = h.verif_raw();
                        let hr = HistRaw { used_bytes: raw[..used].to_vec(), used, cursor: None, buflen: budget };
                        let entries = hist_entries(&hr);
                        if !m.observe_entries(&entries) {
                            if last {
                                let exp: Vec<Vec<String>> = m.states.iter().map(|s| s.entries.iter().map(|e| show_bytes(e)).collect()).collect();
                                report(rep, args, "C10", "closure-stored-entries", &submit_tag(&info), b, full.len(), J::s(show_path(&full, &pool)), format!("budget {}: after {} the stored lines are {:?}; allowed {:?}", budget, show_path(&full, &pool), entries.iter().map(|e| show_bytes(e)).collect::<Vec<_>>(), exp));
                            }
                            ok = false;
                            break;
                        }
                        if last {
                            count_submit(rep, &info);
                        }
                    } else {
                        let up = o == pool.len();
                        let exp = m.expected(up);
                        let ret: Option<Vec<u8>> = if up { h.next_older().map(|s| s.as_bytes().to_vec()) } else { h.next_newer().map(|s| s.as_bytes().to_vec()) };
                        if !m.navigate_ret(up, ret.as_deref()) {
                            if last {
                                report(rep, args, "C10", "closure-recall", if up { "older" } else { "newer" }, b, full.len(), J::s(show_path(&full, &pool)), format!("budget {}: after {} the call returned {:?}; allowed {:?}", budget, show_path(&full, &pool), ret.as_ref().map(|r| show_bytes(r)), exp));
                            }
                            ok = false;
                            break;
                        }
                        if last {
                            rep.count(if ret.is_some() { "c10.closure.recalls" } else { "c10.closure.recall_at_end" });
                        }
                    }
                }
                transitions += 1;
                rep.evaluations += 1;
                if !ok {
                    bad += 1;
                    if bad > 50 {
                        return;
                    }
                    continue;
                }
                let (raw, used, cursor) = h.verif_raw();
                let hr = HistRaw { used_bytes: raw[..used].to_vec(), used, cursor, buflen: budget };
                if let Err((class, what)) = check_invariants(&EdState { line: vec![], valid: 0, cursor: 0, buflen: 0 }, Some(&hr)) {
                    report(rep, args, "C10", "closure-invariant", class, b, full.len(), J::s(show_path(&full, &pool)), format!("budget {}: after {}: {}", budget, show_path(&full, &pool), what));
                    continue;
                }
                let key = (raw[..used].to_vec(), cursor);
                if seen.insert(key) {
                    q.push_back(full);
                }
            }
        }
        rep.distinct_disjoint += seen.len() as u64;
        rep.count_n("c10.closure.states", seen.len() as u64);
        rep.count_n("c10.closure.transitions", transitions);
        rep.sample(budget, || J::s(format!("closure of History, budget {}: {} states, {} transitions", budget, seen.len(), transitions)));
    });
}

#[cfg(not(feature = "history"))]
pub fn run_c10_component(_args: &Args, _rep: &mut Report) {}

fn show_path(p: &[u8], pool: &[&str]) -> String {
    p.iter()
        .map(|&o| {
            let o = o as usize;
            if o < pool.len() {
                format!("push({:?})", pool[o])
            } else if o == pool.len() {
                "older".to_string()
            } else {
                "newer".to_string()
            }
        })
        .collect::<Vec<_>>()
        .join(" ")
}

fn submit_tag(info: &SubmitInfo) -> String {
    if info.rejected_empty {
        "empty-line".into()
    } else if info.rejected_long {
        "too-long".into()
    } else if info.dedup_newest || info.dedup_older {
        if info.evicted > 0 { "dedupe+evict".into() } else { "dedupe".into() }
    } else if info.evicted > 0 {
        "evict".into()
    } else {
        "append".into()
    }
}

fn count_submit(rep: &mut Report, info: &SubmitInfo) {
    if info.rejected_empty {
        rep.count("c10.closure.push_empty");
    } else if info.rejected_long {
        rep.count("c10.closure.push_too_long");
    } else {
        rep.count("c10.closure.push_recorded");
    }
    if info.dedup_newest || info.dedup_older {
        rep.count("c10.closure.dedupes");
    }
    if info.evicted > 0 {
        rep.count("c10.closure.evictions");
    }
}
