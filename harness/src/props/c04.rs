//! C04: byte stream -> key events. (i) direct lockstep of the real InputGenerator against the
//! reference decoder, bounded-exhaustive over key units; (ii) the same units through the Cli,
//! judged by their observable effects.
use crate::json::{show_bytes, J};
use crate::prng::{hash_u64s, Rng};
use crate::refmodel::*;
use crate::report::Report;
use crate::rig::*;
use crate::runner::*;
use crate::session::{shadow_accept, Shadow};
use crate::sink::MonSink;
use embedded_cli::__verif::InputGenerator;
use embedded_cli::command::RawCommand;

pub const UNITS: [&[u8]; 20] = [
    b"a", b"[", b"A", b"~", b" ", "é".as_bytes(), "€".as_bytes(), "𐍈".as_bytes(), b"\r", b"\n", b"\x08", b"\t", b"\x1b",
    b"\x1b[A", b"\x1b[B", b"\x1b[C", b"\x1b[D", b"\x1b[1;5A", b"\x1b[3~", b"\x01",
];
const U_ESC: usize = 12;
const U_BRACKET: usize = 1;

fn seq_ok(seq: &[usize]) -> bool {
    // a lone ESC directly followed by `[` *is* a CSI introducer: never emitted as two units
    !seq.windows(2).any(|w| w[0] == U_ESC && w[1] == U_BRACKET)
}

#[allow(dead_code)]
fn unit_seq_bytes(seq: &[usize]) -> Vec<u8> {
    seq.iter().flat_map(|&u| UNITS[u].iter().copied()).collect()
}

fn show_units(seq: &[usize]) -> String {
    seq.iter().map(|&u| format!("<{}>", show_bytes(UNITS[u]))).collect::<Vec<_>>().join("")
}

fn mismatch_tag(unit: usize, real: &Shadow, exp: &Option<Key>, prev_units: &[usize]) -> String {
    let u = match unit {
        8 | 9 => "terminator",
        12 => "esc",
        13..=18 => "csi",
        19 => "c0",
        10 => "bs",
        11 => "tab",
        5..=7 => "multibyte",
        _ => "ascii",
    };
    let what = match (real, exp) {
        (Shadow::None, Some(Key::Enter)) => {
            if prev_units.len() >= 2 && matches!(prev_units[prev_units.len() - 1], 8 | 9) && matches!(prev_units[prev_units.len() - 2], 8 | 9) {
                "enter-lost-after-pair"
            } else {
                "enter-lost"
            }
        }
        (Shadow::None, Some(_)) => "event-lost",
        (Shadow::Key(_), None) => "spurious-event",
        (Shadow::IllFormed(_), _) => "illformed-char",
        _ => "wrong-event",
    };
    format!("{}-{}", u, what)
}

/// lockstep over one byte sequence given as units; returns number of byte comparisons
fn lockstep(seq: &[usize], rep: &mut Report, args: &Args, case: u64) -> bool {
    let mut real = InputGenerator::new();
    let mut rf = RefDecoder::new();
    for (ui, &u) in seq.iter().enumerate() {
        for (bi, &b) in UNITS[u].iter().enumerate() {
            let st = rf.state_class();
            let e = rf.accept(b);
            let r = shadow_accept(&mut real, b);
            rep.evaluations += 1;
            rep.distinct.insert(hash_u64s(&[4, st, u as u64, bi as u64]));
            let same = match (&r, &e) {
                (Shadow::None, None) => true,
                (Shadow::Key(k), Some(k2)) => k == k2,
                _ => false,
            };
            if !same {
                let tag = mismatch_tag(u, &r, &e, &seq[..ui]);
                report(
                    rep,
                    args,
                    "C04",
                    "decoder-lockstep",
                    &tag,
                    case,
                    seq.len(),
                    J::s(show_units(seq)),
                    format!("units {} : at unit {} byte {} (0x{:02x}) the decoder yields {:?}, the statement requires {:?}", show_units(seq), ui, bi, b, r, e),
                );
                return false;
            }
        }
    }
    true
}

fn count_ngrams(seq: &[usize], rep: &mut Report) {
    // terminator runs: pattern of CR/LF up to length 6
    let mut run: Vec<u64> = vec![];
    for &u in seq.iter().chain([0usize].iter()) {
        if u == 8 || u == 9 {
            run.push(u as u64);
            if run.len() <= 6 {
                let mut key = vec![44u64];
                key.extend(run.iter());
                rep.distinct.insert(hash_u64s(&key));
            }
        } else {
            run.clear();
        }
    }
}

pub fn run_direct(args: &Args, rep: &mut Report) {
    // exhaustive: all unit sequences of length <= depth; a chunk = fixed first two units
    let depth: usize = if args.thorough { 7 } else { 6 };
    let nu = UNITS.len();
    let chunks = (nu * nu) as u64;
    run_cases(args, "C04", chunks + 1, rep, &mut |c, rep| {
        if !mine(args, c) {
            rep.cases -= 1;
            return;
        }
        if c == chunks {
            // lengths 0 and 1
            for u in 0..nu {
                lockstep(&[u], rep, args, c);
                rep.count("c04.sequences");
            }
            return;
        }
        let (u0, u1) = ((c as usize) / nu, (c as usize) % nu);
        // depth-first over the remaining positions
        let mut seq = vec![u0, u1];
        fn rec(seq: &mut Vec<usize>, depth: usize, rep: &mut Report, args: &Args, c: u64) {
            if seq_ok(seq) {
                if lockstep(seq, rep, args, c) {
                    rep.count("c04.sequences");
                    count_ngrams(seq, rep);
                } else {
                    return; // every extension fails the same way
                }
            } else {
                return;
            }
            if seq.len() < depth {
                for u in 0..UNITS.len() {
                    seq.push(u);
                    rec(seq, depth, rep, args, c);
                    seq.pop();
                }
            }
        }
        rec(&mut seq, depth, rep, args, c);
    });
    rep.distinct_disjoint = 0;
}

// ------------------------------------------------------------------ random long sequences + through the Cli

fn gen_unit_bytes(rng: &mut Rng) -> (Vec<u8>, usize) {
    // unit classes as above, but with random parameters / characters
    let k = rng.weighted(&[18, 6, 6, 6, 14, 12, 5, 5, 8, 8, 8, 3, 3]);
    let bytes = match k {
        0 => vec![*rng.pick(b"abcxyzAZ09[~;?@")],
        1 => "é".as_bytes().to_vec(),
        2 => "€".as_bytes().to_vec(),
        3 => "𐍈".as_bytes().to_vec(),
        4 => vec![b'\r'],
        5 => vec![b'\n'],
        6 => vec![0x08],
        7 => vec![0x09],
        8 | 9 => {
            let mut v = vec![0x1b, b'['];
            let m = if rng.chance(2) { 300 } else if rng.chance(10) { 40 } else { 4 };
            for _ in 0..rng.below(m) {
                v.push(rng.range(0x20, 0x3f) as u8);
            }
            v.push(*rng.pick(b"ABCD"));
            v
        }
        10 => {
            let mut v = vec![0x1b, b'['];
            for _ in 0..rng.below(6) {
                v.push(rng.range(0x20, 0x3f) as u8);
            }
            // any final byte except A-D
            let mut f = rng.range(0x40, 0x7e) as u8;
            if (b'A'..=b'D').contains(&f) {
                f = b'~';
            }
            v.push(f);
            v
        }
        11 => vec![*rng.pick(&[0u8, 1, 2, 3, 4, 5, 6, 7, 0x0b, 0x0c, 0x0e, 0x0f, 0x10, 0x18, 0x1a, 0x1c, 0x1d, 0x1e, 0x1f])],
        _ => vec![0x1b, *rng.pick(&[0x01u8, 0x02, b'a', b'O', 0x1b, 0x7e])],
    };
    (bytes, k)
}

/// Units through a real Cli (RawCommand set, big buffers, silent handler): the reference decoder
/// drives an ideal editor; after every unit the hooked line / cursor / dispatch count / prompt
/// count must be what the decoded keys imply.
pub fn run_cli(args: &Args, rep: &mut Report) {
    let total: u64 = if args.thorough { 400_000 } else { 16_000 };
    let n = args.scaled(total) / args.nshards.max(1);
    run_cases(args, "C04", n, rep, &mut |idx, rep| {
        let mut rng = Rng::derive(args.seed ^ 0xC04, args.shard, idx);
        let nunits = if rng.chance(10) { rng.range(100, 400) } else { rng.range(5, 60) };
        let mut units: Vec<(Vec<u8>, usize)> = Vec::with_capacity(nunits);
        for _ in 0..nunits {
            let mut u = gen_unit_bytes(&mut rng);
            // never a lone ESC / ESC-x unit directly followed by a unit starting with '['
            if let Some((prev, _)) = units.last() {
                if prev.last() == Some(&0x1b) && u.0[0] == b'[' {
                    u = (vec![b'a'], 0);
                }
            }
            units.push(u);
        }
        through_cli(&units, rep, args, idx);
    });
}

fn through_cli(units: &[(Vec<u8>, usize)], rep: &mut Report, args: &Args, case: u64) {
    let cap = 96usize;
    let mut cmd = vec![0u8; cap].into_boxed_slice();
    let mut hist = vec![0u8; 64].into_boxed_slice();
    let sink = MonSink::new();
    let mut rig: Rig<'_, RawCommand<'static>> =
        Rig::build(&mut cmd, &mut hist, 0, false, sink.clone(), RecProc::new(vec![], None)).expect("build");
    let mut rf = RefDecoder::new();
    let mut ed = RefEditor::new(cap);
    let mut bytes_seen = sink.0.borrow().bytes.len();
    let mut inj = Rng::derive(args.seed ^ 0x1C04, args.shard, case);
    let all: Vec<u8> = units.iter().flat_map(|u| u.0.iter().copied()).collect();
    for (ui, (bytes, class)) in units.iter().enumerate() {
        let log0 = rig.proc.log.len();
        let pre = rig.editor();
        let mut keys: Vec<Key> = vec![];
        rep.distinct.insert(hash_u64s(&[41, rf.state_class(), *class as u64, pre.line.is_empty() as u64]));
        let mut out: Vec<u8> = vec![];
        for (bi, &b) in bytes.iter().enumerate() {
            // "depends only on the byte sequence": an application call between two bytes -- also in the middle of an
            // escape sequence, a CR LF pair or a multi-byte character -- must not change what the bytes decode to
            if inj.chance(3) {
                let before = rig.editor();
                let r = if inj.chance(50) { rig.write(&[WCall { kind: WKind::Str, text: "note".into() }]) } else { rig.set_prompt(0) };
                r.expect("sink never fails");
                bytes_seen = sink.0.borrow().bytes.len();
                rep.count(if bi > 0 { "c04.cli.calls_injected_inside_a_unit" } else { "c04.cli.calls_injected_between_units" });
                if rig.editor() != before {
                    return; // C13's business
                }
            }
            if let Some(k) = rf.accept(b) {
                keys.push(k);
            }
            rig.byte(b).expect("sink never fails");
            let s = sink.0.borrow();
            out.extend_from_slice(&s.bytes[bytes_seen..]);
            bytes_seen = s.bytes.len();
        }
        let post = rig.editor();
        rep.evaluations += 1;
        rep.count(match class {
            0..=3 => "c04.cli.char_units",
            4 | 5 => "c04.cli.terminator_units",
            6 | 7 => "c04.cli.bs_tab_units",
            8 | 9 => "c04.cli.arrow_units",
            _ => "c04.cli.ignored_units",
        });
        let mut expect_dispatch = 0;
        let mut resync = false;
        let mut enters = 0;
        for k in &keys {
            match k {
                Key::Char(c) => {
                    ed.insert(*c);
                }
                Key::Backspace => {
                    ed.backspace();
                }
                Key::Left => {
                    ed.left();
                }
                Key::Right => {
                    ed.right();
                }
                Key::Up | Key::Down | Key::Tab => resync = true,
                Key::Enter => {
                    enters += 1;
                    if ed.text().chars().any(|c| c != ' ') {
                        expect_dispatch += 1;
                    }
                    ed.clear();
                }
            }
        }
        let ctx = || format!("input {} : after unit {} ({})", show_bytes(&all[..all.len().min(160)]), ui, show_bytes(bytes));
        let fail = |rep: &mut Report, tag: &str, detail: String| {
            report(rep, args, "C04", "effect-through-cli", tag, case, units.len(), J::s(show_bytes(&all)), detail);
        };
        let got_dispatch = rig.proc.log.len() - log0;
        if got_dispatch != expect_dispatch {
            fail(rep, if got_dispatch < expect_dispatch { "enter-lost" } else { "spurious-enter" }, format!("{}: {} dispatches, the statement implies {}", ctx(), got_dispatch, expect_dispatch));
            return;
        }
        // one fresh prompt per Enter
        let prompts = count_sub(&out, b"\r\n$ ");
        if prompts != enters {
            fail(rep, if prompts < enters { "enter-lost" } else { "spurious-enter" }, format!("{}: {} new prompts for {} terminators-as-Enter", ctx(), prompts, enters));
            return;
        }
        if keys.is_empty() && (!out.is_empty() || post != pre) {
            fail(rep, "ignored-unit-had-effect", format!("{}: an ignored unit wrote {} or changed the line", ctx(), show_bytes(&out)));
            return;
        }
        if resync {
            match String::from_utf8(post.line.clone()) {
                Ok(s) => ed.set(&s, post.cursor),
                Err(_) => return,
            }
        } else if post.line != ed.text().as_bytes() || post.cursor != ed.cursor {
            let leaked = *class >= 8 && post.line.len() > ed.text().len();
            fail(
                rep,
                if leaked { "sequence-bytes-leaked" } else { "wrong-key-effect" },
                format!("{}: line {:?}/{} but the decoded keys {:?} give {:?}/{}", ctx(), show_bytes(&post.line), post.cursor, keys, ed.text(), ed.cursor),
            );
            return;
        }
    }
}

fn count_sub(hay: &[u8], needle: &[u8]) -> usize {
    if hay.len() < needle.len() {
        return 0;
    }
    hay.windows(needle.len()).filter(|w| *w == needle).count()
}

/// Every scalar value >= U+0020 (DEL aside) after each of a set of decoder contexts: exactly one
/// Char event carrying that scalar, at its last byte.
pub fn run_scalars(args: &Args, rep: &mut Report) {
    const CHUNK: u32 = 0x1000;
    let chunks = (0x110000 / CHUNK) as u64;
    // what came before must not matter: nothing, a character of every kind of lead octet (the leads E0, ED, F0, F4 restrict
    // the second octet), such a character followed by something else, terminators, keys, ignored input, truncated sequences
    const CONTEXTS: [&[u8]; 22] = [
        b"", b"a", b"\r", b"\n", b"\x1b[A", b"\x1b[1;5~", b"\x1b", "é".as_bytes(), b"\xE2\x82",
        "\u{800}".as_bytes(), "\u{D7FF}".as_bytes(), "\u{10000}".as_bytes(), "\u{10FFFF}".as_bytes(), "\u{FFFF}".as_bytes(),
        "\u{10000}a".as_bytes(), "\u{D7FF}\r".as_bytes(), "\u{800}\x1b[C".as_bytes(), "\u{10FFFF}\x08".as_bytes(),
        b"\xE0\xA0", b"\xED\x9F", b"\xF0\x90\x80", b"\xF4\x8F",
    ];
    // ... and the character itself must not matter to what follows: boundary characters of every length after it
    const PROBES: [&str; 8] = ["a", "\u{80}", "\u{7FF}", "\u{800}", "\u{D7FF}", "\u{E000}", "\u{10000}", "\u{10FFFF}"];
    run_cases(args, "C04", chunks, rep, &mut |c, rep| {
        if !mine(args, c) {
            rep.cases -= 1;
            return;
        }
        let lo = c as u32 * CHUNK;
        let mut n = 0u64;
        for u in lo..lo + CHUNK {
            let ch = match char::from_u32(u) {
                Some(ch) if u >= 0x20 && u != 0x7f => ch,
                _ => continue,
            };
            if ch == '[' {
                continue; // after a lone ESC it is a CSI introducer by definition
            }
            n += 1;
            let mut b4 = [0u8; 4];
            let enc = ch.encode_utf8(&mut b4).as_bytes().to_vec();
            for ctx in CONTEXTS {
                let mut real = InputGenerator::new();
                let mut rf = RefDecoder::new();
                for &b in ctx {
                    let _ = rf.accept(b);
                    let _ = shadow_accept(&mut real, b);
                }
                for (bi, &b) in enc.iter().enumerate() {
                    let e = rf.accept(b);
                    let r = shadow_accept(&mut real, b);
                    rep.evaluations += 1;
                    let same = match (&r, &e) {
                        (Shadow::None, None) => true,
                        (Shadow::Key(k), Some(k2)) => k == k2,
                        _ => false,
                    };
                    if !same {
                        let tag = format!("scalar-{}byte-{}", enc.len(), if matches!(r, Shadow::None) { "lost" } else { "wrong" });
                        report(rep, args, "C04", "decoder-lockstep", &tag, c, 1, J::s(format!("U+{:04X} after {}", u, show_bytes(ctx))), format!("U+{:04X} after context {}: at byte {} the decoder yields {:?}, the statement requires {:?}", u, show_bytes(ctx), bi, r, e));
                        break;
                    }
                }
            }
            for probe in PROBES {
                let mut real = InputGenerator::new();
                let mut rf = RefDecoder::new();
                for &b in &enc {
                    let _ = rf.accept(b);
                    let _ = shadow_accept(&mut real, b);
                }
                for (bi, &b) in probe.as_bytes().iter().enumerate() {
                    let e = rf.accept(b);
                    let r = shadow_accept(&mut real, b);
                    rep.evaluations += 1;
                    let same = match (&r, &e) {
                        (Shadow::None, None) => true,
                        (Shadow::Key(k), Some(k2)) => k == k2,
                        _ => false,
                    };
                    if !same {
                        let tag = format!("after-scalar-{}byte-{}", enc.len(), if matches!(r, Shadow::None) { "lost" } else { "wrong" });
                        report(rep, args, "C04", "decoder-lockstep", &tag, c, 1, J::s(format!("{:?} after U+{:04X}", probe, u)), format!("{:?} typed after U+{:04X}: at byte {} the decoder yields {:?}, the statement requires {:?}", probe, u, bi, r, e));
                        break;
                    }
                }
            }
        }
        rep.distinct_disjoint += n;
        rep.count_n("c04.scalars", n);
        if c == 0 {
            // lengths that no longer fit one or two octets: "any parameter bytes", "N consecutive terminators yield N Enters"
            for len in [15usize, 16, 17, 31, 32, 33, 63, 64, 65, 127, 128, 129, 254, 255, 256, 257, 511, 512, 513, 1023, 1024, 1025, 4095, 4096, 4097, 65534, 65535, 65536, 65537, 70001] {
                let mut streams: Vec<(&str, Vec<u8>)> = vec![];
                for fin in [b'A', b'D', b'~'] {
                    let mut v = vec![0x1b, b'['];
                    v.extend((0..len).map(|i| 0x20 + ((i * 7 + len) % 0x20) as u8));
                    v.push(fin);
                    v.extend_from_slice(b"x\x1b[B[\r");
                    streams.push(("long-csi", v));
                }
                streams.push(("cr-run", vec![b'\r'; len]));
                streams.push(("lf-run", vec![b'\n'; len]));
                streams.push(("crlf-run", b"\r\n".iter().cycle().take(2 * len).cloned().collect()));
                streams.push(("lfcr-run", b"\n\r".iter().cycle().take(2 * len + 1).cloned().collect()));
                streams.push(("char-run", "é".as_bytes().iter().cycle().take(2 * len).cloned().collect()));
                for (what, st) in streams {
                    let mut real = InputGenerator::new();
                    let mut rf = RefDecoder::new();
                    rep.count("c04.long_streams");
                    for (bi, &b) in st.iter().enumerate() {
                        let e = rf.accept(b);
                        let r = shadow_accept(&mut real, b);
                        rep.evaluations += 1;
                        let same = match (&r, &e) {
                            (Shadow::None, None) => true,
                            (Shadow::Key(k), Some(k2)) => k == k2,
                            _ => false,
                        };
                        if !same {
                            report(rep, args, "C04", "decoder-lockstep", &format!("{}-{}", what, if len > 65000 { "over-65535" } else if len > 250 { "over-255" } else { "short" }), c, 1, J::s(format!("{} of length {}", what, len)), format!("{} of {} units: at byte {} the decoder yields {:?}, the statement requires {:?}", what, len, bi, r, e));
                            break;
                        }
                    }
                }
            }
        }
    });
}
