//! C02: well-formed UTF-8 at every hand-out point, whatever bytes arrive.
use crate::gen::*;
use crate::json::{show_bytes, J};
use crate::prng::{hash_u64s, Rng};
use crate::refmodel::*;
use crate::report::Report;
use crate::rig::*;
use crate::runner::*;
use crate::session::*;
use crate::sink::MonSink;
use embedded_cli::__verif::Utf8Accum;
use embedded_cli::command::RawCommand;

pub const BOUNDARY: [u8; 24] = [
    0x80, 0x8F, 0x90, 0x9F, 0xA0, 0xBF, 0xC0, 0xC1, 0xC2, 0xDF, 0xE0, 0xE1, 0xEC, 0xED, 0xEE, 0xEF, 0xF0, 0xF1, 0xF3, 0xF4, 0xF5, 0xF7, 0xF8, 0xFF,
];
const SENTINELS: &[u8] = "Aé€𐍈".as_bytes();

/// One garbage sequence followed by the sentinels into a fresh decoder.
/// Returns Err((clause, tag, detail)) on the first refuted clause.
#[inline]
fn check_seq(garbage: &[u8]) -> Result<(u32, u32), (&'static str, &'static str, String)> {
    let mut input = [0u8; 16];
    let n = garbage.len();
    input[..n].copy_from_slice(garbage);
    input[n..n + SENTINELS.len()].copy_from_slice(SENTINELS);
    let total = n + SENTINELS.len();
    let mut acc = Utf8Accum::default();
    // emitted scalars and where their bytes came from
    let mut emitted = [0u32; 16];
    let mut ne = 0usize;
    let mut inp_pos = 0usize; // subsequence matcher over the input for the emitted bytes
    let mut invented = false;
    for i in 0..total {
        if let Some(s) = acc.push_byte(input[i]) {
            let b = s.as_bytes();
            match core::str::from_utf8(b) {
                Ok(t) => {
                    let mut it = t.chars();
                    let c = it.next();
                    if c.is_none() || it.next().is_some() {
                        return Err(("decoder-emitted-illformed", "not-one-scalar", format!("emitted {} for input {}", show_bytes(b), show_bytes(&input[..total]))));
                    }
                    emitted[ne] = c.unwrap() as u32;
                    ne += 1;
                }
                Err(_) => {
                    return Err(("decoder-emitted-illformed", illformed_class(b), format!("emitted {} for input {}", show_bytes(b), show_bytes(&input[..total]))));
                }
            }
            // bytes must be a subsequence of the input consumed so far
            for &x in b {
                while inp_pos <= i && input[inp_pos] != x {
                    inp_pos += 1;
                }
                if inp_pos > i {
                    invented = true;
                } else {
                    inp_pos += 1;
                }
            }
        }
    }
    if invented {
        return Err(("decoder-invented-bytes", "invented", format!("emitted bytes are not a subsequence of the input {}", show_bytes(&input[..total]))));
    }
    // M = strict scan of the whole input; must be a subsequence of what was emitted
    let m = strict_scan(&input[..total]);
    let mut j = 0;
    for k in 0..ne {
        if j < m.len() && emitted[k] == m[j] as u32 {
            j += 1;
        }
    }
    if j != m.len() {
        let lost = m[j];
        let tag = if (lost as u32) < 0x80 { "lost-ascii-after-garbage" } else if j >= m.len() - 3 { "lost-sentinel-after-garbage" } else { "lost-wellformed-in-garbage" };
        return Err(("wellformed-char-lost", tag, format!("input {} : strict scan finds {:?}, decoder emitted {:?}", show_bytes(&input[..total]), m, &emitted[..ne].iter().map(|&c| char::from_u32(c).unwrap_or('?')).collect::<Vec<_>>())));
    }
    Ok((ne as u32, m.len() as u32))
}

pub fn run_direct(args: &Args, rep: &mut Report) {
    // case = first byte (0x80..=0xFF): all sequences of length 1..=3 starting with it, and the
    // 4-byte ones (quick: over the boundary bytes; thorough: all)
    let thorough = args.thorough;
    run_cases(args, "C02", 128, rep, &mut |c, rep| {
        if !mine(args, c) {
            rep.cases -= 1;
            return;
        }
        let b0 = 0x80 + c as u8;
        let mut seqs: u64 = 0;
        let mut emitted_items: u64 = 0;
        let mut more_than_strict: u64 = 0;
        let mut fails: u64 = 0;
        let mut one = |g: &[u8], rep: &mut Report| {
            seqs += 1;
            match check_seq(g) {
                Ok((ne, nm)) => {
                    emitted_items += ne as u64;
                    if ne > nm {
                        more_than_strict += 1;
                    }
                }
                Err((clause, tag, detail)) => {
                    fails += 1;
                    let key = format!("C02|{}|{}", clause, tag);
                    if rep.viol_counts.get(&key).copied().unwrap_or(0) < 3 || fails < 4 {
                        report(rep, args, "C02", clause, tag, c, g.len(), J::s(show_bytes(g)), detail);
                    } else {
                        *rep.viol_counts.get_mut(&key).unwrap() += 1;
                    }
                }
            }
        };
        one(&[b0], rep);
        for b1 in 0x80..=0xFFu8 {
            one(&[b0, b1], rep);
            for b2 in 0x80..=0xFFu8 {
                one(&[b0, b1, b2], rep);
            }
        }
        if thorough {
            for b1 in 0x80..=0xFFu8 {
                for b2 in 0x80..=0xFFu8 {
                    for b3 in 0x80..=0xFFu8 {
                        one(&[b0, b1, b2, b3], rep);
                    }
                }
            }
        } else if BOUNDARY.contains(&b0) {
            for &b1 in &BOUNDARY {
                for &b2 in &BOUNDARY {
                    for &b3 in &BOUNDARY {
                        one(&[b0, b1, b2, b3], rep);
                    }
                }
            }
        }
        rep.evaluations += seqs;
        rep.distinct_disjoint += seqs;
        rep.count_n("c02.direct.sequences", seqs);
        rep.count_n("c02.direct.items_emitted", emitted_items);
        rep.count_n("c02.direct.emitted_more_than_strict_scan(allowed)", more_than_strict);
        rep.count_n("c02.direct.sentinel_acceptances", (seqs - fails) * 4);
        rep.sample(1, || J::s(format!("{} + sentinels", show_bytes(&[b0]))));
        rep.sample(4, || J::s(format!("{} + sentinels", show_bytes(&[b0, 0xBF, 0x80, 0xFF]))));
    });
}

// ------------------------------------------------------------------ hostile streams through the whole CLI

pub fn malformed_fragment(rng: &mut Rng) -> Vec<u8> {
    let cont = |rng: &mut Rng| rng.range(0x80, 0xBF) as u8;
    match rng.below(12) {
        0 => vec![*rng.pick(&[0xC0u8, 0xC1]), cont(rng)],                                  // overlong 2
        1 => vec![0xE0, rng.range(0x80, 0x9F) as u8, cont(rng)],                            // overlong 3
        2 => vec![0xF0, rng.range(0x80, 0x8F) as u8, cont(rng), cont(rng)],                 // overlong 4
        3 => vec![0xED, rng.range(0xA0, 0xBF) as u8, cont(rng)],                            // surrogate
        4 => vec![0xF4, rng.range(0x90, 0xBF) as u8, cont(rng), cont(rng)],                 // > U+10FFFF
        5 => vec![rng.range(0xF5, 0xF7) as u8, cont(rng), cont(rng), cont(rng)],            // F5..F7 lead
        6 => vec![rng.range(0xF8, 0xFF) as u8],                                             // never valid
        7 => vec![cont(rng)],                                                               // stray continuation
        8 => vec![rng.range(0xC2, 0xDF) as u8],                                             // truncated 2
        9 => vec![rng.range(0xE1, 0xEC) as u8, cont(rng)],                                  // truncated 3
        10 => vec![rng.range(0xF1, 0xF3) as u8, cont(rng), cont(rng)],                      // truncated 4
        _ => (0..rng.range(1, 5)).map(|_| rng.range(0x80, 0xFF) as u8).collect(),           // noise
    }
}

/// session generator: ordinary keys with malformed fragments spliced in
pub fn gen_hostile(rng: &mut Rng, sizes_all: bool) -> (SessionCfg, Vec<Op>) {
    let mut p = Profile::base();
    p.w_write = 2;
    p.w_set_prompt = 1;
    p.w_enter = 12;
    p.inject_between_bytes = true;
    if sizes_all {
        p.cmd_sizes = (0..=64).collect();
        p.hist_sizes = (0..=64).collect();
    }
    let (cfg, ops) = gen_session(rng, &p);
    let mut out = Vec::with_capacity(ops.len() + 32);
    for op in ops {
        if rng.chance(12) {
            // splice: sometimes as the argument of a short option so that the option parser sees it
            if rng.chance(30) {
                out.extend(b" -".iter().map(|&b| Op::Byte(b)));
            }
            out.extend(malformed_fragment(rng).into_iter().map(Op::Byte));
            if rng.chance(20) {
                out.push(Op::Byte(b'\r'));
            }
        } else if rng.chance(2) {
            out.push(Op::Byte(rng.below(256) as u8));
        }
        out.push(op);
    }
    (cfg, out)
}

pub fn run_cli(args: &Args, rep: &mut Report) {
    let env = SessionEnv::from_build(P_C02);
    let total: u64 = if args.thorough { 600_000 } else { 24_000 };
    let n = args.scaled(total) / args.nshards.max(1);
    run_session_cases(args, n, &env, rep, &|rng, _| gen_hostile(rng, false));
}

/// "well-formed characters that follow are still accepted", observed at the handler:
/// a stream of letters, multi-byte characters and malformed fragments, then CR; the command name
/// the handler receives must contain the strict scan of the stream as a subsequence and consist
/// only of bytes of the stream, in order.
pub fn run_accept(args: &Args, rep: &mut Report) {
    let total: u64 = if args.thorough { 800_000 } else { 40_000 };
    let n = args.scaled(total) / args.nshards.max(1);
    run_cases(args, "C02", n, rep, &mut |idx, rep| {
        let mut rng = Rng::derive(args.seed ^ 0xC02A, args.shard, idx);
        let mut stream: Vec<u8> = vec![];
        let mut classes: Vec<u64> = vec![];
        for _ in 0..rng.range(1, 12) {
            if rng.chance(45) {
                let f = malformed_fragment(&mut rng);
                classes.push(f[0] as u64 >> 3);
                stream.extend(f);
            } else {
                let s = *rng.pick(&["a", "b", "z", "é", "Ж", "€", "佐", "𐍈", "😀"]);
                classes.push(200 + s.len() as u64);
                stream.extend(s.as_bytes());
            }
        }
        let mut cmd = vec![0u8; 128].into_boxed_slice();
        let mut hist = vec![0u8; 0].into_boxed_slice();
        let sink = MonSink::new();
        let mut rig: Rig<'_, RawCommand<'static>> = Rig::build(&mut cmd, &mut hist, 0, false, sink.clone(), RecProc::new(vec![], None)).expect("build");
        for &b in &stream {
            rig.byte(b).expect("sink never fails");
        }
        rig.byte(b'\r').expect("sink never fails");
        rep.evaluations += 1;
        rep.distinct.insert(hash_u64s(&classes));
        rep.count("c02.accept.streams");
        rep.sample(stream.len(), || J::s(show_bytes(&stream)));
        let m = strict_scan(&stream);
        let name: Vec<u8> = rig.proc.log.first().map(|r| r.name.clone()).unwrap_or_default();
        let input = J::s(show_bytes(&stream));
        match core::str::from_utf8(&name) {
            Err(_) => report(rep, args, "C02", "handout-illformed", "handler", idx, stream.len(), input, format!("stream {} : handler received {}", show_bytes(&stream), show_bytes(&name))),
            Ok(s) => {
                let got: Vec<char> = s.chars().collect();
                rep.count_n("c02.accept.wellformed_chars_expected", m.len() as u64);
                if !is_subsequence(&m, &got) {
                    report(rep, args, "C02", "wellformed-char-lost", "through-cli", idx, stream.len(), input, format!("stream {} : well-formed characters {:?} but the handler received {:?}", show_bytes(&stream), m, s));
                } else if !is_subsequence(&name, &stream) {
                    report(rep, args, "C02", "decoder-invented-bytes", "through-cli", idx, stream.len(), input, format!("stream {} : handler received {:?}", show_bytes(&stream), s));
                }
            }
        }
    });
}
