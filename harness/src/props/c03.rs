//! C03: no panic / abort / overflow / out-of-bounds for any input and buffer size.
//! The same workloads are run under the dbg (ub_checks), ASan, Miri and memcheck builds.
use crate::json::{show_bytes, J};
use crate::prng::{hash_u64s, Rng};
use crate::props::c02::gen_hostile;
use crate::report::Report;
use crate::rig::*;
use crate::runner::*;
use crate::session::*;
use embedded_cli::__verif::{utils, Editor, Tokens};
use embedded_cli::arguments::ArgList;

pub fn run_sessions(args: &Args, rep: &mut Report) {
    let env = SessionEnv::from_build(P_C03);
    let total: u64 = if args.thorough { 800_000 } else { 32_000 };
    let n = args.scaled(total) / args.nshards.max(1);
    let thorough = args.thorough;
    let shard = args.shard;
    let nsh = args.nshards.max(1);
    run_session_cases(args, n, &env, rep, &|rng, idx| {
        let (mut cfg, ops) = gen_hostile(rng, true);
        if thorough {
            // visit every (command size, history size) pair in 0..=64 x 0..=64
            let g = idx * nsh + shard;
            cfg.cmd = (g % 65) as usize;
            cfg.hist = ((g / 65) % 65) as usize;
        }
        (cfg, ops)
    });
    // evidence: which size pairs were visited is derivable from the generator; count distinct pairs seen
}

fn rand_str(rng: &mut Rng, max_chars: usize, allow_nul: bool) -> String {
    const P: [&str; 14] = ["a", "b", " ", "-", "\"", "\\", "é", "Ж", "€", "佐", "𐍈", "😀", "\u{0}", "h"];
    let n = rng.below(max_chars + 1);
    let mut s = String::new();
    for _ in 0..n {
        let t = P[rng.weighted(&[8, 5, 5, 4, 2, 2, 4, 2, 3, 2, 3, 2, if allow_nul { 2 } else { 0 }, 2])];
        s.push_str(t);
    }
    s
}

fn editor_inv(ed: &Editor<&mut [u8]>) -> Result<(), String> {
    let (raw, valid, cursor) = ed.verif_raw();
    if valid > raw.len() {
        return Err(format!("valid {} > buffer {}", valid, raw.len()));
    }
    match core::str::from_utf8(&raw[..valid]) {
        Err(_) => Err(format!("editor text is not UTF-8: {}", show_bytes(&raw[..valid]))),
        Ok(s) => {
            if cursor > s.chars().count() {
                Err(format!("cursor {} beyond {} chars", cursor, s.chars().count()))
            } else {
                Ok(())
            }
        }
    }
}

/// direct stress of the components with any argument the safe API allows
pub fn run_components(args: &Args, rep: &mut Report) {
    let total: u64 = if args.thorough { 1_200_000 } else { 60_000 };
    let n = args.scaled(total) / args.nshards.max(1);
    run_cases(args, "C03", n, rep, &mut |idx, rep| {
        let mut rng = Rng::derive(args.seed ^ 0xC03, args.shard, idx);
        let fail = |rep: &mut Report, tag: &str, log: &[String], detail: String| {
            report(rep, args, "C03", "invariant", tag, idx, log.len(), J::Arr(log.iter().map(J::s).collect()), format!("{} after [{}]", detail, log.join("; ")));
        };
        match idx % 4 {
            0 => {
                // ---- Editor
                let cap = rng.below(18);
                let mut buf = vec![0x55u8; cap].into_boxed_slice();
                let mut ed = Editor::new(&mut buf[..]);
                let mut log: Vec<String> = vec![format!("Editor::new([u8; {}])", cap)];
                for _ in 0..rng.range(5, 60) {
                    match rng.below(9) {
                        0 | 1 | 2 => {
                            let s = rand_str(&mut rng, 3, false);
                            log.push(format!("insert({:?})", s));
                            ed.insert(&s);
                        }
                        3 => {
                            log.push("remove".into());
                            ed.remove();
                        }
                        4 => {
                            log.push("move_left".into());
                            ed.move_left();
                        }
                        5 => {
                            log.push("move_right".into());
                            ed.move_right();
                        }
                        6 => {
                            let a = rng.below(24);
                            let b = rng.below(24);
                            log.push(format!("text_range(kind {}, {}, {})", a % 6, a, b));
                            let t = match a % 6 {
                                0 => ed.text_range(a..b).len(),
                                1 => ed.text_range(a..=b).len(),
                                2 => ed.text_range(..b).len(),
                                3 => ed.text_range(..=b).len(),
                                4 => ed.text_range(a..).len(),
                                _ => ed.text_range(..).len(),
                            };
                            rep.count_n("c03.text_range_bytes", t as u64);
                        }
                        7 => {
                            #[cfg(feature = "autocomplete")]
                            {
                                let merges: Vec<String> = (0..rng.below(4)).map(|_| rand_str(&mut rng, 5, false)).collect();
                                let partial = rng.chance(20);
                                log.push(format!("autocompletion(merge {:?}{})", merges, if partial { ", mark_partial" } else { "" }));
                                ed.autocompletion(|_req, ac| {
                                    for m in &merges {
                                        ac.merge_autocompletion(m);
                                    }
                                    if partial {
                                        ac.mark_partial();
                                    }
                                });
                            }
                        }
                        _ => {
                            if rng.chance(15) {
                                log.push("clear".into());
                                ed.clear();
                            }
                        }
                    }
                    rep.evaluations += 1;
                    if let Err(e) = editor_inv(&ed) {
                        fail(rep, "editor", &log, e);
                        return;
                    }
                }
                rep.distinct.insert(hash_u64s(&[3, 0, cap as u64, log.len() as u64 / 8]));
                rep.count("c03.component.editor_runs");
                rep.sample(log.len(), || J::s(log.join("; ")));
            }
            1 => {
                // ---- History
                #[cfg(feature = "history")]
                {
                    use embedded_cli::__verif::History;
                    let cap = rng.below(20);
                    let mut buf = vec![0x55u8; cap].into_boxed_slice();
                    let mut h = History::new(&mut buf[..]);
                    let mut log: Vec<String> = vec![format!("History::new([u8; {}])", cap)];
                    for _ in 0..rng.range(5, 60) {
                        match rng.below(5) {
                            0 | 1 => {
                                let ml = if rng.chance(10) { 30 } else { 5 };
                                let s = rand_str(&mut rng, ml, true);
                                log.push(format!("push({:?})", s));
                                h.push(&s);
                            }
                            2 | 3 => {
                                log.push("next_older".into());
                                if let Some(s) = h.next_older() {
                                    if core::str::from_utf8(s.as_bytes()).is_err() {
                                        fail(rep, "history", &log, "recalled text is not UTF-8".into());
                                        return;
                                    }
                                }
                            }
                            _ => {
                                log.push("next_newer".into());
                                h.next_newer();
                            }
                        }
                        rep.evaluations += 1;
                        let (raw, used, cursor) = h.verif_raw();
                        let hr = HistRaw { used_bytes: raw[..used.min(raw.len())].to_vec(), used, cursor, buflen: raw.len() };
                        if let Err((_, what)) = check_invariants(&EdState { line: vec![], valid: 0, cursor: 0, buflen: 0 }, Some(&hr)) {
                            fail(rep, "history", &log, what);
                            return;
                        }
                    }
                    rep.distinct.insert(hash_u64s(&[3, 1, cap as u64, log.len() as u64 / 8]));
                    rep.count("c03.component.history_runs");
                    rep.sample(log.len(), || J::s(log.join("; ")));
                }
            }
            2 => {
                // ---- Tokens / ArgList / RawCommand on any string, NULs included
                let s = rand_str(&mut rng, 24, true);
                let mut copy = s.clone();
                let toks = Tokens::new(copy.as_mut_str());
                let mut ntok = 0;
                for t in toks.iter() {
                    ntok += 1;
                    if core::str::from_utf8(t.as_bytes()).is_err() {
                        fail(rep, "tokens", &[format!("Tokens::new({:?})", s)], "token is not UTF-8".into());
                        return;
                    }
                }
                let raw = rand_str(&mut rng, 24, true);
                let al = ArgList::new(Tokens::from_raw(&raw, rng.chance(20)));
                let mut nargs = 0;
                for a in al.args() {
                    nargs += 1;
                    if let embedded_cli::arguments::Arg::ShortOption(c) = a {
                        if char::from_u32(c as u32).is_none() {
                            fail(rep, "arglist", &[format!("ArgList over {:?}", raw)], "short option is not a scalar".into());
                            return;
                        }
                    }
                }
                // partially consumed iterators turned back into lists
                let mut it = al.args();
                for _ in 0..rng.below(4) {
                    it.next();
                }
                let rest = it.into_args();
                nargs += rest.args().count();
                rep.evaluations += 2;
                rep.count_n("c03.component.tokens_seen", ntok as u64 + nargs as u64);
                rep.distinct.insert(hash_u64s(&[3, 2, ntok as u64, nargs as u64]));
                rep.count("c03.component.token_runs");
            }
            _ => {
                // ---- utils on any valid &str
                let a = rand_str(&mut rng, 10, true);
                let b = rand_str(&mut rng, 10, true);
                let i = rng.below(14);
                let _ = utils::char_count(&a);
                let bi = utils::char_byte_index(&a, i);
                if let Some(bi) = bi {
                    if !a.is_char_boundary(bi) {
                        fail(rep, "utils", &[format!("char_byte_index({:?}, {})", a, i)], format!("returned {} which is not a character boundary", bi));
                        return;
                    }
                }
                let p = utils::common_prefix_len(&a, &b);
                if p > a.len() || p > b.len() || !a.is_char_boundary(p) {
                    fail(rep, "utils", &[format!("common_prefix_len({:?}, {:?})", a, b)], format!("returned {}", p));
                    return;
                }
                let _ = utils::char_pop_front(&a);
                let _ = utils::trim_start(&a);
                let c = char::from_u32(rng.below(0x110000) as u32).unwrap_or('x');
                let mut buf4 = [0u8; 4];
                let _ = utils::encode_utf8(c, &mut buf4);
                #[cfg(feature = "autocomplete")]
                {
                    // Autocompletion over buffers of size 0..8 with arbitrary merges
                    use embedded_cli::autocomplete::Autocompletion;
                    let cap = rng.below(9);
                    let mut buf = vec![0x55u8; cap].into_boxed_slice();
                    let mut ac = Autocompletion::new(&mut buf[..]);
                    let mut log = vec![format!("Autocompletion::new([u8; {}])", cap)];
                    for _ in 0..rng.below(5) {
                        let m = rand_str(&mut rng, 5, false);
                        log.push(format!("merge({:?})", m));
                        ac.merge_autocompletion(&m);
                        if let Some(t) = ac.autocompleted() {
                            if core::str::from_utf8(t.as_bytes()).is_err() || t.len() > cap {
                                fail(rep, "autocompletion", &log, format!("autocompleted text {} invalid or longer than the buffer", show_bytes(t.as_bytes())));
                                return;
                            }
                        }
                    }
                }
                rep.evaluations += 4;
                rep.distinct.insert(hash_u64s(&[3, 3, a.len() as u64, b.len() as u64, i as u64]));
                rep.count("c03.component.utils_runs");
            }
        }
    });
}

// ------------------------------------------------------------------ canaries: prove that a UB monitor is live

/// Deliberate undefined behaviour in the harness's own code. Each must be caught by the build it
/// is named after; a canary that exits normally means the monitor is not live.
pub fn canary(kind: &str) {
    let n = std::env::args().count(); // opaque to the optimiser
    let v: Vec<u8> = vec![1u8; 8 + n];
    let idx = v.len() + 3 + n;
    match kind {
        "unchecked-index" => {
            // caught by: dbg (ub_checks), miri, asan (heap overflow read)
            let x = unsafe { *v.get_unchecked(idx) };
            println!("canary survived: read {}", x);
        }
        "heap-write-past-end" => {
            // caught by: asan, miri, memcheck
            let mut b = vec![0u8; 16 + n].into_boxed_slice();
            let p = b.as_mut_ptr();
            unsafe { std::ptr::write_volatile(p.add(b.len() + 1), 7) };
            println!("canary survived: wrote past the end, b[0]={}", b[0]);
        }
        "unwrap-unchecked-none" => {
            let o: Option<usize> = if n > 1000 { Some(1) } else { None };
            let x = unsafe { o.unwrap_unchecked() };
            println!("canary survived: {}", x);
        }
        "overflow" => {
            let a = (n as u8).wrapping_add(250);
            let b = a + (n as u8 + 10);
            println!("canary survived: {}", b);
        }
        _ => println!("unknown canary"),
    }
}

// ------------------------------------------------------------------ lean driver (for Miri / memcheck: no oracles, just the real code)

fn lean_session<C: embedded_cli::service::Autocomplete + embedded_cli::service::Help>(cfg: &SessionCfg, ops: &[Op]) -> Result<usize, String> {
    use crate::sink::MonSink;
    let mut cmd_buf = crate::rig::filled(cfg.cmd, cfg.cmd + 3 * cfg.hist + cfg.prompt);
    let mut hist_buf = crate::rig::filled(cfg.hist, cfg.hist + 5 * cfg.cmd + cfg.prompt + 1);
    let sink = MonSink::new();
    let mut proc = RecProc::new(cfg.script.clone(), cfg.set.parse_fn());
    proc.pform = cfg.pform;
    let mut rig: Rig<'_, C> = Rig::build(&mut cmd_buf, &mut hist_buf, cfg.prompt, cfg.use_new, sink.clone(), proc).map_err(|e| format!("build: {:?}", e))?;
    for (i, op) in ops.iter().enumerate() {
        let r = match op {
            Op::Byte(b) => rig.byte(*b),
            Op::Write(c) => rig.write(c),
            Op::SetPrompt(p) => rig.set_prompt(*p),
        };
        if let Err(e) = r {
            return Err(format!("op {} returned {:?}", i, e));
        }
        if i % 16 == 15 || i + 1 == ops.len() {
            let ed = rig.editor();
            let h = rig.history();
            if let Err((c, w)) = check_invariants(&ed, h.as_ref()) {
                return Err(format!("invariant {} after op {}: {}", c, i, w));
            }
        }
        // keep the logs small
        rig.proc.log.clear();
    }
    let n = sink.0.borrow().bytes.len();
    Ok(n)
}

pub fn run_lean(args: &Args, rep: &mut Report) {
    let total: u64 = if args.thorough { 4_000 } else { 640 };
    let n = args.scaled(total) / args.nshards.max(1);
    run_cases(args, "C03", n, rep, &mut |idx, rep| {
        let mut rng = Rng::derive(args.seed ^ 0x1EA, args.shard, idx);
        let (mut cfg, mut ops) = gen_hostile(&mut rng, true);
        ops.truncate(90);
        if rng.chance(50) {
            // tiny buffers are where the unchecked arithmetic is most exposed
            cfg.cmd = rng.below(9);
            cfg.hist = rng.below(9);
        }
        if args.verbose {
            println!("VRUN-CASE {} {}", idx, encode_session(&cfg, &ops));
        }
        eprintln!("VRUN-CASE {}", idx);
        rep.evaluations += ops.len() as u64;
        rep.count_n("c03.lean.ops", ops.len() as u64);
        rep.distinct.insert(hash_u64s(&[33, cfg.cmd as u64, cfg.hist as u64, cfg.set as u64]));
        rep.sample(ops.len(), || session_sample(&cfg, &ops));
        let r = crate::with_set!(cfg.set, lean_session, &cfg, &ops);
        match r {
            Ok(n) => rep.count_n("c03.lean.sink_bytes", n as u64),
            Err(e) => report(rep, args, "C03", "invariant", "lean", idx, ops.len(), J::s(encode_session(&cfg, &ops)), e),
        }
    });
}

pub fn lean_session_kind(cfg: &SessionCfg, ops: &[Op]) -> Result<usize, String> {
    crate::with_set!(cfg.set, lean_session, cfg, ops)
}

/// libFuzzer input -> session: 3 header bytes (command size, history size, set/prompt/constructor),
/// then one op per byte; 0xFE / 0xFF escape an application call (write / set_prompt) taken from the next byte.
pub fn decode_fuzz_input(data: &[u8]) -> Option<(SessionCfg, Vec<Op>)> {
    use crate::sets::SetKind;
    if data.len() < 3 {
        return None;
    }
    let cfg = SessionCfg {
        cmd: (data[0] % 65) as usize,
        hist: (data[1] % 65) as usize,
        prompt: ((data[2] >> 2) % 6) as usize,
        set: [SetKind::Raw, SetKind::FixA, SetKind::FixG, SetKind::FixU][(data[2] & 3) as usize],
        use_new: data[2] & 0x40 != 0,
        chunk: if data[2] & 0x80 != 0 { 1 } else { 0 },
        script: if data[2] & 0x20 != 0 {
            vec![HAction { writes: vec![WCall { kind: WKind::Str, text: "o\nk".into() }, WCall { kind: WKind::Ln, text: "".into() }], set_prompt: Some(((data[2] >> 3) % 6) as usize), fail: false, reject: false }]
        } else {
            vec![]
        },
        pform: 0,
    };
    let mut ops = vec![];
    let mut i = 3;
    while i < data.len() {
        match data[i] {
            0xFE if i + 1 < data.len() => {
                let b = data[i + 1];
                let text = ["", "x", "a\nb", "é€\r\n", "\n\n", "𐍈 y"][(b % 6) as usize].to_string();
                let kind = [WKind::Str, WKind::Ln, WKind::Ufmt, WKind::Fmt][((b >> 3) % 4) as usize];
                ops.push(Op::Write(vec![WCall { kind, text }]));
                i += 2;
            }
            0xFF if i + 1 < data.len() => {
                ops.push(Op::SetPrompt((data[i + 1] % 6) as usize));
                i += 2;
            }
            b => {
                ops.push(Op::Byte(b));
                i += 1;
            }
        }
    }
    Some((cfg, ops))
}


// ------------------------------------------------------------------ array buffers and the default builder

/// what a run leaves behind: every byte sent to the sink, the edited line, the cursor
type Transcript = (Vec<u8>, Vec<u8>, usize);

/// the same operations on a Cli over lent slices of the given sizes (what every other workload uses)
fn slice_transcript(cmd: usize, hist: usize, prompt: usize, ops: &[Op]) -> Result<Transcript, String> {
    use crate::sink::MonSink;
    use embedded_cli::command::RawCommand;
    let mut cmd_buf = vec![0u8; cmd].into_boxed_slice();
    let mut hist_buf = vec![0u8; hist].into_boxed_slice();
    let sink = MonSink::new();
    let proc = RecProc::new(vec![HAction { writes: vec![WCall { kind: WKind::Str, text: "ok".into() }], set_prompt: None, fail: false, reject: false }], None);
    let mut rig: Rig<'_, RawCommand<'static>> = Rig::build(&mut cmd_buf, &mut hist_buf, prompt, false, sink.clone(), proc).map_err(|e| format!("build: {:?}", e))?;
    for (i, op) in ops.iter().enumerate() {
        let r = match op {
            Op::Byte(b) => rig.byte(*b),
            Op::Write(c) => rig.write(c),
            Op::SetPrompt(p) => rig.set_prompt(*p),
        };
        if let Err(e) = r {
            return Err(format!("op {} returned {:?}", i, e));
        }
        rig.proc.log.clear();
    }
    let e = rig.editor();
    let bytes = sink.0.borrow().bytes.clone();
    Ok((bytes, e.line, e.cursor))
}

fn lean_arrays<const N: usize, const M: usize>(ops: &[Op], default_builder: bool) -> Result<Transcript, String> {
    use crate::sink::{MonSink, SinkErr};
    use embedded_cli::cli::CliBuilder;
    use embedded_cli::command::RawCommand;
    let sink = MonSink::new();
    let mut proc = RecProc::new(vec![HAction { writes: vec![WCall { kind: WKind::Str, text: "ok".into() }], set_prompt: None, fail: false, reject: false }], None);
    let mut last: (Vec<u8>, usize) = (vec![], 0);
    macro_rules! drive {
        ($cli:expr) => {{
            let mut cli = $cli;
            for (i, op) in ops.iter().enumerate() {
                let r: Result<(), SinkErr> = match op {
                    Op::Byte(b) => cli.process_byte::<RawCommand<'_>, _>(*b, &mut proc),
                    Op::Write(c) => cli.write(|w| do_writes(w, c)),
                    Op::SetPrompt(p) => cli.set_prompt(PROMPTS[*p]),
                };
                if let Err(e) = r {
                    return Err(format!("op {} returned {:?}", i, e));
                }
                if i % 8 == 7 || i + 1 == ops.len() {
                    let (buf, valid, cursor) = cli.verif_editor().ok_or("editor missing")?;
                    let ed = EdState { line: buf[..valid.min(buf.len())].to_vec(), valid, cursor, buflen: buf.len() };
                    if let Err((c, w)) = check_invariants(&ed, None) {
                        return Err(format!("invariant {} after op {}: {}", c, i, w));
                    }
                }
                proc.log.clear();
            }
            if let Some((buf, valid, cursor)) = cli.verif_editor() {
                last = (buf[..valid.min(buf.len())].to_vec(), cursor);
            }
        }};
    }
    if default_builder {
        // CliBuilder::default(): [u8; 40] command buffer, [u8; 100] history buffer, prompt "$ "
        drive!(CliBuilder::default().writer(sink.clone()).build().map_err(|e| format!("build: {:?}", e))?);
    } else {
        drive!(CliBuilder::default().writer(sink.clone()).command_buffer([0u8; N]).history_buffer([0u8; M]).prompt("#").build().map_err(|e| format!("build: {:?}", e))?);
    }
    let bytes = sink.0.borrow().bytes.clone();
    Ok((bytes, last.0, last.1))
}

/// `CliBuilder::default().build()`: no writer given, so the output goes to the library's `EmptyWriter` (error type Infallible).
/// What is observable without a sink: the dispatched commands and the hooked line. Returns (names + item counts, line, cursor).
fn empty_writer_run(ops: &[Op]) -> Result<(Vec<(Vec<u8>, usize)>, Vec<u8>, usize), String> {
    use embedded_cli::cli::{CliBuilder, CliHandle};
    use embedded_cli::command::RawCommand;
    use embedded_cli::service::{CommandProcessor, ProcessError};
    use embedded_cli::writer::EmptyWriter;
    struct P(Vec<(Vec<u8>, usize)>);
    impl CommandProcessor<EmptyWriter, core::convert::Infallible> for P {
        fn process<'a>(&mut self, cli: &mut CliHandle<'_, EmptyWriter, core::convert::Infallible>, raw: RawCommand<'a>) -> Result<(), ProcessError<'a, core::convert::Infallible>> {
            self.0.push((raw.name().as_bytes().to_vec(), raw.args().args().count()));
            cli.writer().write_str("ok")?;
            Ok(())
        }
    }
    let mut p = P(vec![]);
    let mut cli = CliBuilder::default().build().map_err(|e| format!("build: {:?}", e))?;
    for op in ops {
        let r = match op {
            Op::Byte(b) => cli.process_byte::<RawCommand<'_>, _>(*b, &mut p),
            Op::Write(c) => cli.write(|w| {
                for call in c {
                    w.write_str(&call.text)?;
                }
                Ok(())
            }),
            Op::SetPrompt(q) => cli.set_prompt(PROMPTS[*q]),
        };
        if r.is_err() {
            return Err("an Infallible sink failed".into());
        }
    }
    let (buf, valid, cursor) = cli.verif_editor().ok_or("editor missing")?;
    Ok((p.0, buf[..valid.min(buf.len())].to_vec(), cursor))
}

/// what the same operations dispatch and leave on the line with a monitored sink and slice buffers of the default sizes
fn slice_dispatches(ops: &[Op]) -> Result<(Vec<(Vec<u8>, usize)>, Vec<u8>, usize), String> {
    use crate::sink::MonSink;
    use embedded_cli::command::RawCommand;
    let mut cmd_buf = vec![0u8; 40].into_boxed_slice();
    let mut hist_buf = vec![0u8; 100].into_boxed_slice();
    let sink = MonSink::new();
    let proc = RecProc::new(vec![HAction { writes: vec![WCall { kind: WKind::Str, text: "ok".into() }], set_prompt: None, fail: false, reject: false }], None);
    let mut rig: Rig<'_, RawCommand<'static>> = Rig::build(&mut cmd_buf, &mut hist_buf, 0, false, sink.clone(), proc).map_err(|e| format!("build: {:?}", e))?;
    for (i, op) in ops.iter().enumerate() {
        let r = match op {
            Op::Byte(b) => rig.byte(*b),
            Op::Write(c) => rig.write(c),
            Op::SetPrompt(p) => rig.set_prompt(*p),
        };
        if let Err(e) = r {
            return Err(format!("op {} returned {:?}", i, e));
        }
    }
    let e = rig.editor();
    Ok((rig.proc.log.iter().map(|r| (r.name.clone(), r.args.len())).collect(), e.line, e.cursor))
}

/// the `[u8; N]` Buffer implementation and the builder defaults (every other workload lends `&mut [u8]`)
pub fn run_arrays(args: &Args, rep: &mut Report) {
    let total: u64 = if args.thorough { 200_000 } else { 16_000 };
    let n = args.scaled(total) / args.nshards.max(1);
    run_cases(args, "C03", n, rep, &mut |idx, rep| {
        let mut rng = Rng::derive(args.seed ^ 0xA77A, args.shard, idx);
        let (_cfg, ops) = gen_hostile(&mut rng, false);
        let which = idx % 8;
        let (r, sizes) = match which {
            0 => (lean_arrays::<0, 0>(&ops, false), (0, 0, 2)),
            1 => (lean_arrays::<1, 1>(&ops, false), (1, 1, 2)),
            2 => (lean_arrays::<2, 5>(&ops, false), (2, 5, 2)),
            3 => (lean_arrays::<5, 2>(&ops, false), (5, 2, 2)),
            4 => (lean_arrays::<8, 8>(&ops, false), (8, 8, 2)),
            5 => (lean_arrays::<40, 100>(&ops, false), (40, 100, 2)),
            6 => (lean_arrays::<17, 3>(&ops, false), (17, 3, 2)),
            // CliBuilder::default(): 40 / 100 bytes, prompt "$ "
            _ => (lean_arrays::<0, 0>(&ops, true), (40, 100, 0)),
        };
        // an array-backed Cli must behave exactly like a slice-backed one of the same sizes (the behavioural monitors
        // of C01/C05/... all run on slices): same bytes to the sink, same line, same cursor
        if let Ok(ta) = &r {
            rep.evaluations += 1;
            rep.count("c03.arrays.compared_with_slices");
            match slice_transcript(sizes.0, sizes.1, sizes.2, &ops) {
                Ok(ts) if ts == *ta => {}
                Ok(ts) => report(rep, args, "C05", "array-vs-slice-buffers", if ts.0 != ta.0 { "output" } else { "line" }, idx, ops.len(), J::s(show_ops(&ops)), format!("command/history buffers [u8; {}]/[u8; {}] vs slices of the same sizes: output {} vs {} bytes, line {:?}/{} vs {:?}/{} [{}]", sizes.0, sizes.1, ta.0.len(), ts.0.len(), crate::json::show_bytes(&ta.1), ta.2, crate::json::show_bytes(&ts.1), ts.2, show_ops(&ops))),
                Err(e) => report(rep, args, "C05", "array-vs-slice-buffers", "slice-run-failed", idx, ops.len(), J::s(show_ops(&ops)), format!("slice-backed run failed where the array-backed one did not: {}", e)),
            }
        }
        if which == 7 {
            // the builder's default writer: same dispatches, same line as with a monitored sink
            rep.evaluations += 1;
            rep.count("c03.arrays.empty_writer_compared");
            match (empty_writer_run(&ops), slice_dispatches(&ops)) {
                (Ok(a), Ok(b)) if a == b => {}
                (Ok(a), Ok(b)) => report(rep, args, "C05", "default-writer-vs-monitored-sink", if a.0 != b.0 { "dispatches" } else { "line" }, idx, ops.len(), J::s(show_ops(&ops)), format!("CliBuilder::default().build() (EmptyWriter) dispatched {} commands and ends on line {:?}/{}, a Cli with a monitored sink and buffers of the same sizes {} commands and {:?}/{} [{}]", a.0.len(), crate::json::show_bytes(&a.1), a.2, b.0.len(), crate::json::show_bytes(&b.1), b.2, show_ops(&ops))),
                (Err(e), _) => report(rep, args, "C03", "invariant", "empty-writer", idx, ops.len(), J::s(show_ops(&ops)), format!("default-writer Cli: {} [{}]", e, show_ops(&ops))),
                (_, Err(_)) => {}
            }
        }
        rep.evaluations += ops.len() as u64;
        rep.count_n("c03.arrays.ops", ops.len() as u64);
        rep.distinct.insert(hash_u64s(&[34, which, ops.len() as u64 / 16]));
        if let Err(e) = r {
            report(rep, args, "C03", "invariant", "array-buffers", idx, ops.len(), J::s(show_ops(&ops)), format!("array-buffer Cli (variant {}): {} [{}]", which, e, show_ops(&ops)));
        }
    });
}
