//! Session-based workloads: C01, C05 (random part), C06, C10 (random part), C13, C15.
use crate::gen::*;
use crate::report::Report;
use crate::runner::*;
use crate::session::*;
use crate::sets::SetKind;

fn profile_for(prop: &str, variant: u64) -> Profile {
    let mut p = Profile::base();
    match prop {
        "C01" => {
            p.help_lines = true;
            p.w_enter = 14;
            p.w_tab = 7;
            p.w_up = 6;
            p.w_down = 4;
            p.w_pool_line = 5;
            // the dispatched line must not depend on application calls arriving between two input bytes
            p.w_write = 2;
            p.w_set_prompt = 1;
            p.inject_between_bytes = true;
        }
        "C05" => {
            p.w_char = 60;
            p.w_backspace = 12;
            p.w_left = 12;
            p.w_right = 8;
            p.w_enter = 3;
            p.max_keys = 100;
            p.w_write = 1;
            p.w_set_prompt = 1;
            p.inject_between_bytes = true;
        }
        "C06" => {
            p.help_lines = true;
            p.w_pool_line = 5;
            p.w_write = 5;
            p.w_set_prompt = 4;
            p.inject_between_bytes = true;
        }
        "C10" => {
            p.w_char = 12;
            p.w_pool_line = 20;
            p.w_up = 16;
            p.w_down = 12;
            p.w_enter = 8;
            p.w_tab = 1;
            p.end_probe = true;
            p.sets = vec![SetKind::Raw];
            if variant % 4 == 0 {
                // lines of every length around the budget
                p.w_char = 40;
                p.w_pool_line = 6;
            }
        }
        "C13" => {
            p.w_write = 10;
            p.w_set_prompt = 2;
            p.w_enter = 14;
            p.inject_between_bytes = true;
            p.handler_level = 2;
            // every third session: application texts with any character at all (this workload's clauses compare bytes)
            p.raw_text = variant % 3 == 0;
        }
        "C15" => {
            p.help_lines = true;
            p.w_pool_line = 8;
            p.w_write = 5;
            p.w_set_prompt = 4;
            p.w_enter = 12;
            p.w_tab = 7;
        }
        "C11" => {
            p.w_char = 25;
            p.w_word = 22;
            p.w_tab = 22;
            p.w_left = 8;
            p.w_backspace = 6;
            p.w_enter = 4;
            p.w_up = 1;
            p.w_down = 1;
            p.w_pool_line = 1;
            p.sets = vec![SetKind::FixA, SetKind::FixG, SetKind::FixG, SetKind::Raw, SetKind::FixU, SetKind::FixU];
            p.cmd_sizes = vec![1, 2, 3, 4, 5, 6, 7, 8, 9, 10, 13, 16, 32];
            p.max_keys = 40;
        }
        "C16" => {
            p.w_write = 3;
            p.w_set_prompt = 2;
            p.w_enter = 12;
            p.w_tab = 7;
            p.w_up = 7;
            p.w_down = 5;
            p.w_pool_line = 8;
            p.help_lines = true;
            // so that every build has many sessions that avoid exactly the facilities it lacks
            match variant % 5 {
                0 => {
                    p.w_up = 0;
                    p.w_down = 0;
                    p.w_tab = 0;
                    p.help_lines = false;
                }
                1 => {
                    p.w_tab = 0;
                    p.help_lines = false;
                }
                2 => {
                    p.w_up = 0;
                    p.w_down = 0;
                    p.help_lines = false;
                }
                3 => {
                    p.w_up = 0;
                    p.w_down = 0;
                    p.w_tab = 0;
                }
                _ => {}
            }
        }
        _ => {}
    }
    p
}

pub fn run(prop: &str, args: &Args, rep: &mut Report) {
    let mut env = SessionEnv::from_build(prop_bit(prop));
    if prop == "C16" {
        // every behavioural monitor, configured for this build's feature set
        env.enabled = P_C01 | P_C05 | P_C06 | P_C10 | P_C11 | P_C13 | P_C15 | P_C16;
    }
    let total: u64 = if prop == "C16" { if args.thorough { 100_000 } else { 8_000 } } else if args.thorough { 4_000_000 } else { 160_000 };
    let n = args.scaled(total) / args.nshards.max(1);
    let prop_s = prop.to_string();
    run_session_cases(args, n, &env, rep, &|rng, idx| {
        let p = profile_for(&prop_s, idx);
        gen_session(rng, &p)
    });
}

/// The same monitors on sessions made of bursts in buffers of 200..1100 bytes (lengths, offsets, counts, columns > 255).
pub fn run_large(prop: &str, args: &Args, rep: &mut Report) {
    let mut env = SessionEnv::from_build(prop_bit(prop));
    if prop == "C16" {
        env.enabled = P_C01 | P_C05 | P_C06 | P_C10 | P_C11 | P_C13 | P_C15 | P_C16;
    }
    let total: u64 = if args.thorough { 60_000 } else { 2_400 };
    let n = args.scaled(total) / args.nshards.max(1);
    let prop_s = prop.to_string();
    run_session_cases(args, n, &env, rep, &|rng, idx| {
        let mut p = profile_for(&prop_s, idx);
        if prop_s == "C03" {
            p.w_write = 3;
            p.w_set_prompt = 2;
        }
        gen_large_session(rng, &p)
    });
}

/// Hand-built sessions in buffers of 70,000 bytes: lengths, cursor positions, offsets, entry positions, token counts and
/// terminal columns cross 65,535 / 65,536 under the same monitors (a handful of sessions of ~10^5 operations each; no
/// shrinking, the witness is the session itself).
pub fn huge_session(which: u64) -> (SessionCfg, Vec<Op>) {
    const UP: [u8; 3] = [0x1b, b'[', b'A'];
    const DOWN: [u8; 3] = [0x1b, b'[', b'B'];
    const LEFT: [u8; 3] = [0x1b, b'[', b'D'];
    const RIGHT: [u8; 3] = [0x1b, b'[', b'C'];
    let mut ops: Vec<Op> = vec![];
    let mut cfg = SessionCfg { cmd: 70_000, hist: 0, prompt: 0, set: SetKind::Raw, use_new: false, chunk: 0, script: vec![], pform: 0 };
    let put = |ops: &mut Vec<Op>, b: &[u8], n: usize| {
        for _ in 0..n {
            ops.extend(b.iter().map(|&x| Op::Byte(x)));
        }
    };
    match which % 7 {
        6 => {
            // small buffers, very many keys: more than 65,536 characters typed, deleted, moved over; 6,600 submissions, recalls and
            // completions -- whatever is counted per session crosses 65,535 here
            cfg.cmd = 8;
            cfg.hist = 9;
            cfg.set = SetKind::FixA;
            for i in 0..66_000u32 {
                put(&mut ops, if i % 3 == 0 { b"a" } else { b"b" }, 1);
                put(&mut ops, &LEFT, 1);
                put(&mut ops, &RIGHT, 1);
                put(&mut ops, &[0x08], 1);
                if i % 10 == 9 {
                    put(&mut ops, if i % 20 == 9 { b"ab\r" } else { b"b\n" }, 1);
                    put(&mut ops, &UP, 1);
                    put(&mut ops, &DOWN, 2);
                    put(&mut ops, b"a\t", 1);
                    put(&mut ops, &[0x08], 8);
                }
            }
        }
        0 => {
            // one-byte characters up to and across 65,535 / 65,536; a few moves and edits at the far end and at the start; submit
            put(&mut ops, b"a", 65_530);
            for s in ["b", "é", "c", "€", "d", "e", "𐍈", "f", "g", "i"] {
                put(&mut ops, s.as_bytes(), 1);
            }
            put(&mut ops, &LEFT, 12);
            put(&mut ops, b"x", 2);
            put(&mut ops, &[0x08], 3);
            put(&mut ops, &RIGHT, 20);
            put(&mut ops, b"yz", 1);
            put(&mut ops, b"\r", 1);
        }
        1 => {
            // two-byte characters: 32,768 characters are 65,536 bytes; cursor walks back over the boundary
            put(&mut ops, "é".as_bytes(), 32_760);
            for s in ["a", "é", "€", "é", "é", "b", "é", "é", "é", "é", "é", "é", "𐍈"] {
                put(&mut ops, s.as_bytes(), 1);
            }
            put(&mut ops, &LEFT, 40);
            put(&mut ops, "ж".as_bytes(), 3);
            put(&mut ops, &[0x08], 5);
            put(&mut ops, b"\n", 1);
        }
        2 => {
            // 33,000 tokens in 66,000 bytes, then an argument inserted near the start
            put(&mut ops, b"a ", 33_000);
            put(&mut ops, b"\r\n", 1);
        }
        3 => {
            // history of 70,000 bytes filled and turned over by 1,000-byte lines; walk to the oldest entry and back
            cfg.cmd = 1_100;
            cfg.hist = 70_000;
            for i in 0..75u32 {
                let c = [b'a' + (i % 26) as u8];
                put(&mut ops, &c, 990 + (i as usize % 7));
                put(&mut ops, b"\r", 1);
            }
            put(&mut ops, &UP, 75);
            put(&mut ops, &DOWN, 80);
            put(&mut ops, &UP, 3);
            put(&mut ops, b"\r", 1);
            put(&mut ops, &UP, 2);
        }
        4 => {
            // 17,500 stored entries: offsets beyond 65,535 with short entries, eviction and re-submission of old lines
            cfg.cmd = 16;
            cfg.hist = 70_000;
            for i in 0..23_500u32 {
                // 17,576 distinct lines of 3 + 1 bytes: 70,304 bytes turn the buffer over; later ones are re-submissions
                let a = b'a' + (i % 26) as u8;
                let b = b'a' + ((i / 26) % 26) as u8;
                let c = b'a' + ((i / 676) % 26) as u8;
                put(&mut ops, &[a, b, c], 1);
                put(&mut ops, b"\r", 1);
            }
            put(&mut ops, &UP, 400);
            put(&mut ops, &DOWN, 30);
        }
        _ => {
            // an application write while a 66,000-character line is being edited with the cursor far inside; prompt change
            put(&mut ops, b"a", 65_600);
            put(&mut ops, &LEFT, 300);
            ops.push(Op::Write(vec![crate::rig::WCall { kind: crate::rig::WKind::Str, text: "note\n".into() }]));
            put(&mut ops, b"b", 2);
            ops.push(Op::SetPrompt(3));
            put(&mut ops, &[0x08], 1);
            put(&mut ops, b"\r", 1);
        }
    }
    (cfg, ops)
}

pub fn run_huge(prop: &str, args: &Args, rep: &mut Report) {
    let env = SessionEnv::from_build(prop_bit(prop));
    let n = 7u64;
    for idx in 0..n {
        if !mine(args, idx) || args.only.map(|o| o != idx).unwrap_or(false) {
            continue;
        }
        let (cfg, ops) = huge_session(idx);
        rep.cases += 1;
        let r = run_guarded(&cfg, &ops, &env, rep);
        rep.count_n("ops", r.ops_run as u64);
        rep.count_n("huge.ops", r.ops_run as u64);
        if let Some(w) = r.inconclusive {
            rep.inconclusive(w);
        }
        let mut done: Vec<(String, String, String)> = vec![];
        for f in &r.found {
            let key = (f.prop.to_string(), f.clause.to_string(), f.tag.clone());
            if done.contains(&key) {
                continue;
            }
            done.push(key);
            // the witness is the first `op_index + 1` operations of the hand-built session (not shrunk: one run costs seconds)
            let upto = (f.op_index + 1).min(ops.len());
            let mut f2 = f.clone();
            if f2.detail.len() > 600 {
                let mut cut = 600;
                while !f2.detail.is_char_boundary(cut) {
                    cut -= 1;
                }
                f2.detail.truncate(cut);
                f2.detail.push_str(" ...");
            }
            rep.violation(session_violation(&cfg, &ops[..upto], &f2));
        }
    }
}

/// Replay one explicit session with every monitor of `prop` on, verbosely.
pub fn replay(prop: &str, session: &str, rep: &mut Report) -> bool {
    let (cfg, ops) = match decode_session(session) {
        Some(x) => x,
        None => {
            eprintln!("cannot parse session");
            return false;
        }
    };
    let env = SessionEnv::from_build(if prop == "ALL" {
        P_ALL
    } else if prop == "C16" {
        P_C01 | P_C05 | P_C06 | P_C10 | P_C11 | P_C13 | P_C15 | P_C16
    } else {
        prop_bit(prop)
    });
    let r = run_guarded(&cfg, &ops, &env, rep);
    println!("session: {}", show_ops(&ops));
    println!("config: cmd={} hist={} prompt={:?} set={}", cfg.cmd, cfg.hist, crate::rig::PROMPTS[cfg.prompt], cfg.set.name());
    for f in &r.found {
        println!("FOUND property={} clause={} tag={} at op {}: {}", f.prop, f.clause, f.tag, f.op_index, f.detail);
        rep.violation(session_violation(&cfg, &ops, f));
    }
    if let Some(w) = &r.inconclusive {
        println!("INCONCLUSIVE: {}", w);
    }
    r.found.is_empty()
}
