//! Session-based workloads: C01, C05 (random part), C06, C10 (random part), C13, C15.
use crate::gen::*;
use crate::report::Report;
use crate::runner::*;
use crate::session::*;
use crate::sets::SetKind;

fn profile_for(prop: &str, variant: u64) -> Profile {
    let mut p = Profile::base();
    match prop {
        "C01" => {
            p.help_lines = true;
            p.w_enter = 14;
            p.w_tab = 7;
            p.w_up = 6;
            p.w_down = 4;
            p.w_pool_line = 5;
            // the dispatched line must not depend on application calls arriving between two input bytes
            p.w_write = 2;
            p.w_set_prompt = 1;
            p.inject_between_bytes = true;
        }
        "C05" => {
            p.w_char = 60;
            p.w_backspace = 12;
            p.w_left = 12;
            p.w_right = 8;
            p.w_enter = 3;
            p.max_keys = 100;
            p.w_write = 1;
            p.w_set_prompt = 1;
            p.inject_between_bytes = true;
        }
        "C06" => {
            p.help_lines = true;
            p.w_pool_line = 5;
            p.w_write = 5;
            p.w_set_prompt = 4;
            p.inject_between_bytes = true;
        }
        "C10" => {
            p.w_char = 12;
            p.w_pool_line = 20;
            p.w_up = 16;
            p.w_down = 12;
            p.w_enter = 8;
            p.w_tab = 1;
            p.end_probe = true;
            p.sets = vec![SetKind::Raw];
            if variant % 4 == 0 {
                // lines of every length around the budget
                p.w_char = 40;
                p.w_pool_line = 6;
            }
        }
        "C13" => {
            p.w_write = 10;
            p.w_set_prompt = 2;
            p.w_enter = 14;
            p.inject_between_bytes = true;
            p.handler_level = 2;
        }
        "C15" => {
            p.help_lines = true;
            p.w_pool_line = 8;
            p.w_write = 5;
            p.w_set_prompt = 4;
            p.w_enter = 12;
            p.w_tab = 7;
        }
        "C11" => {
            p.w_char = 25;
            p.w_word = 22;
            p.w_tab = 22;
            p.w_left = 8;
            p.w_backspace = 6;
            p.w_enter = 4;
            p.w_up = 1;
            p.w_down = 1;
            p.w_pool_line = 1;
            p.sets = vec![SetKind::FixA, SetKind::FixG, SetKind::FixG, SetKind::Raw, SetKind::FixU, SetKind::FixU];
            p.cmd_sizes = vec![1, 2, 3, 4, 5, 6, 7, 8, 9, 10, 13, 16, 32];
            p.max_keys = 40;
        }
        "C16" => {
            p.w_write = 3;
            p.w_set_prompt = 2;
            p.w_enter = 12;
            p.w_tab = 7;
            p.w_up = 7;
            p.w_down = 5;
            p.w_pool_line = 8;
            p.help_lines = true;
            // so that every build has many sessions that avoid exactly the facilities it lacks
            match variant % 5 {
                0 => {
                    p.w_up = 0;
                    p.w_down = 0;
                    p.w_tab = 0;
                    p.help_lines = false;
                }
                1 => {
                    p.w_tab = 0;
                    p.help_lines = false;
                }
                2 => {
                    p.w_up = 0;
                    p.w_down = 0;
                    p.help_lines = false;
                }
                3 => {
                    p.w_up = 0;
                    p.w_down = 0;
                    p.w_tab = 0;
                }
                _ => {}
            }
        }
        _ => {}
    }
    p
}

pub fn run(prop: &str, args: &Args, rep: &mut Report) {
    let mut env = SessionEnv::from_build(prop_bit(prop));
    if prop == "C16" {
        // every behavioural monitor, configured for this build's feature set
        env.enabled = P_C01 | P_C05 | P_C06 | P_C10 | P_C11 | P_C13 | P_C15 | P_C16;
    }
    let total: u64 = if prop == "C16" { if args.thorough { 100_000 } else { 8_000 } } else if args.thorough { 4_000_000 } else { 160_000 };
    let n = args.scaled(total) / args.nshards.max(1);
    let prop_s = prop.to_string();
    run_session_cases(args, n, &env, rep, &|rng, idx| {
        let p = profile_for(&prop_s, idx);
        gen_session(rng, &p)
    });
}

/// The same monitors on sessions made of bursts in buffers of 200..1100 bytes (lengths, offsets, counts, columns > 255).
pub fn run_large(prop: &str, args: &Args, rep: &mut Report) {
    let mut env = SessionEnv::from_build(prop_bit(prop));
    if prop == "C16" {
        env.enabled = P_C01 | P_C05 | P_C06 | P_C10 | P_C11 | P_C13 | P_C15 | P_C16;
    }
    let total: u64 = if args.thorough { 60_000 } else { 2_400 };
    let n = args.scaled(total) / args.nshards.max(1);
    let prop_s = prop.to_string();
    run_session_cases(args, n, &env, rep, &|rng, idx| {
        let mut p = profile_for(&prop_s, idx);
        if prop_s == "C03" {
            p.w_write = 3;
            p.w_set_prompt = 2;
        }
        gen_large_session(rng, &p)
    });
}

/// Replay one explicit session with every monitor of `prop` on, verbosely.
pub fn replay(prop: &str, session: &str, rep: &mut Report) -> bool {
    let (cfg, ops) = match decode_session(session) {
        Some(x) => x,
        None => {
            eprintln!("cannot parse session");
            return false;
        }
    };
    let env = SessionEnv::from_build(if prop == "ALL" {
        P_ALL
    } else if prop == "C16" {
        P_C01 | P_C05 | P_C06 | P_C10 | P_C11 | P_C13 | P_C15 | P_C16
    } else {
        prop_bit(prop)
    });
    let r = run_guarded(&cfg, &ops, &env, rep);
    println!("session: {}", show_ops(&ops));
    println!("config: cmd={} hist={} prompt={:?} set={}", cfg.cmd, cfg.hist, crate::rig::PROMPTS[cfg.prompt], cfg.set.name());
    for f in &r.found {
        println!("FOUND property={} clause={} tag={} at op {}: {}", f.prop, f.clause, f.tag, f.op_index, f.detail);
        rep.violation(session_violation(&cfg, &ops, f));
    }
    if let Some(w) = &r.inconclusive {
        println!("INCONCLUSIVE: {}", w);
    }
    r.found.is_empty()
}
