//! C07 tokenisation and C08 classification: direct component monitors + end-to-end through the Cli.
use crate::json::{show_bytes, J};
use crate::prng::{hash_u64s, Rng};
use crate::refmodel::*;
use crate::report::Report;
use crate::rig::*;
use crate::runner::*;
use crate::sink::MonSink;
use embedded_cli::__verif::Tokens;
use embedded_cli::arguments::{Arg, ArgList};
use embedded_cli::command::RawCommand;

const SYMS: [&str; 6] = ["a", " ", "\"", "\\", "-", "é"];

fn real_tokenize(line: &str) -> Result<Vec<String>, String> {
    let mut copy = line.to_string();
    let toks = Tokens::new(copy.as_mut_str());
    let raw_len = toks.clone().into_raw().len();
    if raw_len > line.len() {
        return Err(format!("token buffer longer ({}) than the line ({})", raw_len, line.len()));
    }
    let mut out = vec![];
    for t in toks.iter() {
        match core::str::from_utf8(t.as_bytes()) {
            Ok(s) => out.push(s.to_string()),
            Err(_) => return Err(format!("token is not UTF-8: {}", show_bytes(t.as_bytes()))),
        }
    }
    Ok(out)
}

fn shape(line: &str) -> u64 {
    let v: Vec<u64> = line
        .chars()
        .map(|c| match c {
            ' ' => 0,
            '"' => 1,
            '\\' => 2,
            '-' => 3,
            c => 3 + c.len_utf8() as u64,
        })
        .collect();
    hash_u64s(&v)
}

fn tok_tag(line: &str, got: &[String], want: &[Vec<String>]) -> String {
    let w = &want[0];
    if line.trim_start_matches(' ').starts_with("\"\"") && got.len() < w.len() {
        "leading-empty-token-lost".into()
    } else if got.len() < w.len() {
        "token-lost".into()
    } else if got.len() > w.len() {
        "extra-token".into()
    } else if line.contains('\\') {
        "escape".into()
    } else if line.contains('"') {
        "quote".into()
    } else {
        "content".into()
    }
}

fn check_line(line: &str, rep: &mut Report, args: &Args, case: u64, count_distinct: bool) {
    rep.evaluations += 1;
    if count_distinct {
        rep.distinct.insert(shape(line));
    }
    let want = ref_tokenize_set(line);
    match real_tokenize(line) {
        Err(e) => report(rep, args, "C07", "token-invalid", "utf8-or-length", case, line.len(), J::s(line), format!("line {:?}: {}", line, e)),
        Ok(got) => {
            if !want.contains(&got) {
                report(rep, args, "C07", "tokenize", &tok_tag(line, &got, &want), case, line.chars().count(), J::s(line), format!("line {:?} -> {:?}, the statement allows {:?}", line, got, want));
            } else if let Some((k, rest, items)) = split_mismatch(line, &got) {
                // the way the library itself consumes tokens: take k of them, hand the rest on (command name / sub-command
                // name, then the argument list): the rest must be exactly the remaining tokens, classified as C08 says
                report(rep, args, "C07", "tokenize", "rest-after-taking-tokens", case, line.chars().count(), J::s(line), format!("line {:?} -> {:?}; after taking {} token(s) the remaining tokens are {:?} (as argument items: {:?}), expected {:?}", line, got, k, rest, items, &got[k..]));
            }
        }
    }
}

/// TokensIter::next x k, then into_tokens(): the remainder must be tokens k.. (checked as tokens and as argument items)
fn split_mismatch(line: &str, got: &[String]) -> Option<(usize, Vec<String>, Vec<Item>)> {
    let mut copy = line.to_string();
    let toks = Tokens::new(copy.as_mut_str());
    for k in 0..=got.len() {
        let mut it = toks.iter();
        for _ in 0..k {
            it.next();
        }
        let rest_tokens = it.into_tokens();
        let rest: Vec<String> = rest_tokens.iter().map(|t| t.to_string()).collect();
        let items: Vec<Item> = ArgList::new(rest_tokens)
            .args()
            .map(|a| match a {
                Arg::DoubleDash => Item::DoubleDash,
                Arg::LongOption(n) => Item::Long(n.to_string()),
                Arg::ShortOption(c) => Item::Short(c),
                Arg::Value(v) => Item::Value(v.to_string()),
            })
            .collect();
        if rest != got[k..] || items != ref_classify(&got[k..]) {
            return Some((k, rest, items));
        }
    }
    None
}

pub fn run_direct(args: &Args, rep: &mut Report) {
    // exhaustive: every string of length <= bound over 6 symbols; chunk = first three symbols
    let bound = if args.thorough { 9 } else { 7 };
    let chunks = 6u64 * 6 * 6;
    run_cases(args, "C07", chunks + 1, rep, &mut |c, rep| {
        if !mine(args, c) {
            rep.cases -= 1;
            return;
        }
        if c == chunks {
            for l in 0..=2usize {
                let n = 6usize.pow(l as u32);
                for mut k in 0..n {
                    let mut s = String::new();
                    for _ in 0..l {
                        s.push_str(SYMS[k % 6]);
                        k /= 6;
                    }
                    check_line(&s, rep, args, c, false);
                    rep.distinct_disjoint += 1;
                }
            }
            return;
        }
        let c0 = c as usize;
        let prefix = format!("{}{}{}", SYMS[c0 / 36], SYMS[(c0 / 6) % 6], SYMS[c0 % 6]);
        fn rec(s: &mut String, left: usize, rep: &mut Report, args: &Args, c: u64) {
            check_line(s, rep, args, c, false);
            rep.distinct_disjoint += 1;
            if left == 0 {
                return;
            }
            for sym in SYMS {
                let l = s.len();
                s.push_str(sym);
                rec(s, left - 1, rep, args, c);
                s.truncate(l);
            }
        }
        let mut s = prefix;
        rec(&mut s, bound - 3, rep, args, c);
        rep.sample(s.len(), || J::s(format!("all strings of length 3..={} starting with {:?}", bound, s)));
    });
    rep.count_n("c07.direct.lines", rep.evaluations);
}

// ------------------------------------------------------------------ random lines, round trip, end to end

const CHARS: [&str; 12] = ["a", "b", "h", "-", " ", "\"", "\\", "é", "€", "𐍈", "e", "="];

fn gen_string(rng: &mut Rng, max: usize) -> String {
    let n = if rng.chance(12) { 0 } else { rng.range(1, max) };
    let mut s = String::new();
    for _ in 0..n {
        if rng.chance(6) {
            // any scalar value: a character must not matter because of the octets it is made of
            s.push(crate::gen::random_scalar(rng));
            continue;
        }
        s.push_str(CHARS[rng.weighted(&[10, 6, 3, 6, 6, 5, 5, 4, 3, 3, 2, 2])]);
    }
    s
}

/// "Tokens carry exactly the characters typed (any UTF-8)": every scalar value inside a bare token, alone, and inside a
/// quoted token next to a blank
pub fn run_scalars(args: &Args, rep: &mut Report) {
    const CHUNK: u32 = 0x1000;
    let chunks = (0x110000 / CHUNK) as u64;
    run_cases(args, "C07", chunks, rep, &mut |c, rep| {
        if !mine(args, c) {
            rep.cases -= 1;
            return;
        }
        let lo = c as u32 * CHUNK;
        let mut n = 0u64;
        for u in lo..lo + CHUNK {
            let ch = match char::from_u32(u) {
                Some(ch) if u > 0x20 && u != 0x7f && ch != '"' && ch != '\\' => ch,
                _ => continue,
            };
            n += 1;
            let line = format!("a{c}b {c}  \"{c} x\" {c}{c}", c = ch);
            let want = vec![format!("a{}b", ch), ch.to_string(), format!("{} x", ch), format!("{}{}", ch, ch)];
            rep.evaluations += 1;
            match real_tokenize(&line) {
                Ok(got) if got == want => {}
                Ok(got) => {
                    report(rep, args, "C07", "tokenize", &format!("scalar-{}byte", ch.len_utf8()), c, 1, J::s(format!("U+{:04X}", u)), format!("line {:?} (U+{:04X}) -> {:?}, expected {:?}", line, u, got, want));
                    break;
                }
                Err(e) => {
                    report(rep, args, "C07", "token-invalid", &format!("scalar-{}byte", ch.len_utf8()), c, 1, J::s(format!("U+{:04X}", u)), format!("line {:?} (U+{:04X}): {}", line, u, e));
                    break;
                }
            }
        }
        rep.distinct_disjoint += n;
        rep.count_n("c07.scalars", n);
    });
}

/// renderings of a list that the statement says must tokenise back to exactly that list
fn renderings(list: &[String], rng: &mut Rng) -> Vec<(String, &'static str)> {
    let mut v = vec![];
    v.push((list.iter().map(|t| quote_token(t)).collect::<Vec<_>>().join(" "), "quoted-single-space"));
    let mut s = String::new();
    for _ in 0..rng.below(3) {
        s.push(' ');
    }
    for t in list {
        s.push_str(&quote_token(t));
        for _ in 0..rng.range(1, 3) {
            s.push(' ');
        }
    }
    v.push((s, "quoted-space-runs"));
    v.push((list.iter().map(|t| quote_token(t)).collect::<Vec<_>>().join(""), "quoted-adjacent"));
    // a quoted token directly followed by a bare one needs no blank either; bare next to bare does
    let mut s = String::new();
    let mut prev_bare = false;
    for t in list {
        let bare = !needs_quoting(t);
        if prev_bare || (bare && rng.chance(50) && !s.is_empty()) {
            s.push(' ');
        }
        if bare {
            s.push_str(t);
        } else {
            s.push_str(&quote_token(t));
        }
        prev_bare = bare;
    }
    v.push((s, "bare-where-possible"));
    v
}

pub fn run_random(args: &Args, rep: &mut Report) {
    let total: u64 = if args.thorough { 3_000_000 } else { 100_000 };
    let n = args.scaled(total) / args.nshards.max(1);
    if args.shard == 0 && args.start == 0 {
        // lines whose tokenisation drops, moves or counts more than 255 / 256 bytes or tokens, each with exactly one reading:
        // runs of blanks, many quoted tokens, many escaped quotes, many empty tokens
        let mut lines: Vec<String> = vec![];
        for n in [254usize, 255, 256, 257, 300, 511, 512, 513, 1000, 65_600] {
            lines.push(format!("get{}led", " ".repeat(n)));
            lines.push(format!("{}get led", " ".repeat(n)));
            lines.push(format!("get led{}", " ".repeat(n)));
        }
        for k in [100usize, 127, 128, 129, 200, 255, 256, 257, 300, 700] {
            lines.push((0..k).map(|i| format!("\"v{}\"", i)).collect::<Vec<_>>().join(" "));
            lines.push((0..k).map(|i| format!("v{}", i)).collect::<Vec<_>>().join(" "));
            lines.push(format!("a \"{}\" b", "\\\"".repeat(k)));
            lines.push(format!("a \"{}\" b", "\\\\".repeat(k)));
            lines.push(format!("a {} b", vec!["\"\""; k].join(" ")));
            lines.push(format!("a {}b", "\"x y\"".repeat(k)));
        }
        for (i, l) in lines.iter().enumerate() {
            check_line(l, rep, args, i as u64, true);
            rep.count("c07.long_lines");
        }
    }
    run_cases(args, "C07", n, rep, &mut |idx, rep| {
        let mut rng = Rng::derive(args.seed ^ 0xC07, args.shard, idx);
        // (a) a random long line
        let maxl = if rng.chance(2) { 2000 } else if rng.chance(10) { 200 } else { 30 }; // 2 %: hundreds of tokens, offsets beyond 255 / 256
        let line = gen_string(&mut rng, maxl);
        check_line(&line, rep, args, idx, true);
        rep.count("c07.random.lines");
        // (a') the same line typed into a Cli: what reaches the handler is the name and the classified rest of one of the
        // readings the statement allows (nothing between the keyboard and the tokenizer may touch the line)
        if line.chars().count() <= 60 && !line.contains('\u{7f}') {
            let alts = ref_tokenize_set(&line);
            let mut cmd = vec![0u8; line.len() + 2].into_boxed_slice();
            let mut hist = vec![0u8; 0].into_boxed_slice();
            let sink = MonSink::new();
            let mut rig: Rig<'_, RawCommand<'static>> = Rig::build(&mut cmd, &mut hist, 0, false, sink, RecProc::new(vec![], None)).expect("build");
            for &b in line.as_bytes() {
                rig.byte(b).expect("sink never fails");
            }
            rig.byte(b'\r').expect("sink never fails");
            rep.evaluations += 1;
            rep.count("c07.typed_random_lines");
            let recs = &rig.proc.log;
            let mut ok = false;
            for toks in &alts {
                if toks.is_empty() {
                    ok |= recs.is_empty();
                    continue;
                }
                let items = ref_classify(&toks[1..]);
                let (is_help, open) = help_shape(&toks[0], &items);
                if is_help || open {
                    ok |= recs.is_empty();
                }
                if !is_help && recs.len() == 1 && recs[0].name == toks[0].as_bytes() {
                    let want: Vec<RecArg> = items
                        .iter()
                        .map(|i| match i {
                            Item::DoubleDash => RecArg::DoubleDash,
                            Item::Long(n) => RecArg::Long(n.as_bytes().to_vec()),
                            Item::Short(c) => RecArg::Short(*c as u32),
                            Item::Value(v) => RecArg::Value(v.as_bytes().to_vec()),
                        })
                        .collect();
                    ok |= recs[0].args == want;
                }
            }
            if !ok {
                report(rep, args, "C07", "tokenize", "typed-line", idx, line.chars().count(), J::s(&line), format!("typed {:?}: handler received {:?}, the statement allows the tokens {:?}", line, recs, alts));
            }
        }
        // (b) round trip of a random list
        let list: Vec<String> = (0..rng.range(1, 6)).map(|_| gen_string(&mut rng, 8)).collect();
        rep.sample(list.len(), || J::Arr(list.iter().map(J::s).collect()));
        for (r, kind) in renderings(&list, &mut rng) {
            rep.evaluations += 1;
            rep.count("c07.roundtrip.renderings");
            rep.distinct.insert(hash_u64s(&[77, shape(&r)]));
            match real_tokenize(&r) {
                Ok(got) if got == list => {}
                Ok(got) => {
                    let tag = if list[0].is_empty() && got.len() < list.len() { "leading-empty-token-lost".to_string() } else { format!("roundtrip-{}", kind) };
                    report(rep, args, "C07", "roundtrip", &tag, idx, r.chars().count(), J::s(&r), format!("list {:?} rendered as {:?} tokenises to {:?}", list, r, got));
                }
                Err(e) => report(rep, args, "C07", "token-invalid", "utf8-or-length", idx, r.len(), J::s(&r), format!("rendering {:?}: {}", r, e)),
            }
        }
        // (c) end to end: typed into a Cli, name = first element; the rest after `--` (all values), or as they are
        // (then they arrive classified as C08 says)
        if idx % 2 == 0 && list[0] != "help" {
            let with_dd = rng.chance(50);
            let items = ref_classify(&list[1..]);
            let (is_help, open) = help_shape(&list[0], &items);
            if !with_dd && (is_help || open) {
                rep.count("c07.end_to_end.help_shaped_skipped");
                return;
            }
            let mut line = quote_token(&list[0]);
            if with_dd {
                line.push_str(" --");
            }
            for t in &list[1..] {
                line.push(' ');
                if !with_dd && !needs_quoting(t) && rng.chance(50) {
                    line.push_str(t);
                } else {
                    line.push_str(&quote_token(t));
                }
            }
            let mut cmd = vec![0u8; line.len() + 4].into_boxed_slice();
            let mut hist = vec![0u8; 8].into_boxed_slice();
            let sink = MonSink::new();
            let mut rig: Rig<'_, RawCommand<'static>> = Rig::build(&mut cmd, &mut hist, 0, false, sink, RecProc::new(vec![], None)).expect("build");
            for &b in line.as_bytes() {
                rig.byte(b).expect("sink never fails");
            }
            rig.byte(b'\n').expect("sink never fails");
            rep.evaluations += 1;
            rep.count("c07.end_to_end.lines");
            let want_args: Vec<RecArg> = if with_dd {
                let mut w = vec![RecArg::DoubleDash];
                w.extend(list[1..].iter().map(|t| RecArg::Value(t.as_bytes().to_vec())));
                w
            } else {
                items
                    .iter()
                    .map(|i| match i {
                        Item::DoubleDash => RecArg::DoubleDash,
                        Item::Long(n) => RecArg::Long(n.as_bytes().to_vec()),
                        Item::Short(c) => RecArg::Short(*c as u32),
                        Item::Value(v) => RecArg::Value(v.as_bytes().to_vec()),
                    })
                    .collect()
            };
            let ok = rig.proc.log.len() == 1 && rig.proc.log[0].name == list[0].as_bytes() && rig.proc.log[0].args == want_args;
            if !ok {
                let tag = if list[0].is_empty() { "leading-empty-token-lost" } else if with_dd { "end-to-end" } else { "end-to-end-plain" };
                report(rep, args, "C07", "roundtrip", tag, idx, line.chars().count(), J::s(&line), format!("typed {:?}: handler received {:?}, expected name {:?} and arguments {:?}", line, rig.proc.log, list[0], want_args));
            }
        }
    });
}

// ------------------------------------------------------------------ C08

const SHAPES: [&str; 20] = ["", "-", "--", "---", "-a", "-ab", "-é€", "-𐍈a", "-a-", "--a", "--é", "---x", "a", "a-b", "é", " a", "-h", "--help", "-語￥", "----"];

fn real_classify(tokens: &[String]) -> Vec<Item> {
    let raw = tokens.join("\0");
    let toks = Tokens::from_raw(&raw, tokens.is_empty());
    ArgList::new(toks)
        .args()
        .map(|a| match a {
            Arg::DoubleDash => Item::DoubleDash,
            Arg::LongOption(n) => Item::Long(n.to_string()),
            Arg::ShortOption(c) => Item::Short(c),
            Arg::Value(v) => Item::Value(v.to_string()),
        })
        .collect()
}

fn class_tag(tokens: &[String], got: &[Item], want: &[Item]) -> String {
    // first differing item
    let i = got.iter().zip(want.iter()).position(|(a, b)| a != b).unwrap_or(got.len().min(want.len()));
    let w = want.get(i);
    let after_dd = want[..i.min(want.len())].contains(&Item::DoubleDash);
    let kind = match w {
        Some(Item::DoubleDash) => "double-dash",
        Some(Item::Long(_)) => "long",
        Some(Item::Short(_)) => "short",
        Some(Item::Value(v)) if v.is_empty() => "empty-value",
        Some(Item::Value(v)) if v == "-" => "dash-value",
        Some(Item::Value(_)) => "value",
        None => "extra-item",
    };
    let _ = tokens;
    format!("{}{}", kind, if after_dd { "-after-dd" } else { "" })
}

fn check_tokens(tokens: &[String], rep: &mut Report, args: &Args, case: u64) {
    rep.evaluations += 1;
    let want = ref_classify(tokens);
    let got = real_classify(tokens);
    if got != want {
        report(rep, args, "C08", "classify", &class_tag(tokens, &got, &want), case, tokens.len(), J::Arr(tokens.iter().map(J::s).collect()), format!("tokens {:?} classified as {:?}, the statement requires {:?}", tokens, got, want));
    }
}

pub fn run_c08_direct(args: &Args, rep: &mut Report) {
    // exhaustive: all lists of <= 4 (quick) / <= 5 (thorough) tokens over the 18 shapes; chunk = first token
    let bound = if args.thorough { 5 } else { 4 };
    run_cases(args, "C08", SHAPES.len() as u64 + 1, rep, &mut |c, rep| {
        if !mine(args, c) {
            rep.cases -= 1;
            return;
        }
        if c == SHAPES.len() as u64 {
            check_tokens(&[], rep, args, c);
            rep.distinct_disjoint += 1;
            return;
        }
        fn rec(l: &mut Vec<String>, left: usize, rep: &mut Report, args: &Args, c: u64) {
            check_tokens(l, rep, args, c);
            rep.distinct_disjoint += 1;
            if left == 0 {
                return;
            }
            for s in SHAPES {
                l.push(s.to_string());
                rec(l, left - 1, rep, args, c);
                l.pop();
            }
        }
        let mut l = vec![SHAPES[c as usize].to_string()];
        rec(&mut l, bound - 1, rep, args, c);
        rep.sample(1, || J::s(format!("all token lists of length 1..={} starting with {:?}", bound, SHAPES[c as usize])));
    });
    rep.count_n("c08.direct.lists", rep.evaluations);
}

pub fn run_c08_random(args: &Args, rep: &mut Report) {
    let total: u64 = if args.thorough { 2_000_000 } else { 80_000 };
    let n = args.scaled(total) / args.nshards.max(1);
    const P: [&str; 9] = ["-", "a", "é", "€", "𐍈", " ", "語", "￥", "\u{10FFFD}"];
    run_cases(args, "C08", n, rep, &mut |idx, rep| {
        let mut rng = Rng::derive(args.seed ^ 0xC08, args.shard, idx);
        let list: Vec<String> = (0..rng.below(13))
            .map(|_| {
                let k = rng.below(6);
                (0..k).map(|_| P[rng.weighted(&[16, 10, 6, 4, 4, 2, 2, 2, 1])]).collect::<String>()
            })
            .collect();
        check_tokens(&list, rep, args, idx);
        rep.count("c08.random.lists");
        let sh: Vec<u64> = ref_classify(&list).iter().map(|i| match i { Item::DoubleDash => 0, Item::Long(_) => 1, Item::Short(_) => 2, Item::Value(v) => 3 + v.is_empty() as u64 }).collect();
        rep.distinct.insert(hash_u64s(&sh));
        rep.sample(list.len(), || J::Arr(list.iter().map(J::s).collect()));
        // end to end through the Cli: `x <quoted tokens>`
        if idx % 3 == 0 {
            let items = ref_classify(&list);
            let (is_help, open) = help_shape("x", &items);
            if is_help || open {
                rep.count("c08.end_to_end.help_shaped_skipped");
                return;
            }
            let mut line = String::from("x");
            for t in &list {
                line.push(' ');
                if needs_quoting(t) || rng.chance(30) {
                    line.push_str(&quote_token(t));
                } else {
                    line.push_str(t);
                }
            }
            let mut cmd = vec![0u8; line.len() + 1].into_boxed_slice();
            let mut hist = vec![0u8; 0].into_boxed_slice();
            let sink = MonSink::new();
            let mut rig: Rig<'_, RawCommand<'static>> = Rig::build(&mut cmd, &mut hist, 0, false, sink, RecProc::new(vec![], None)).expect("build");
            for &b in line.as_bytes() {
                rig.byte(b).expect("sink never fails");
            }
            rig.byte(b'\r').expect("sink never fails");
            rep.evaluations += 1;
            rep.count("c08.end_to_end.lines");
            let want: Vec<RecArg> = items
                .iter()
                .map(|i| match i {
                    Item::DoubleDash => RecArg::DoubleDash,
                    Item::Long(n) => RecArg::Long(n.as_bytes().to_vec()),
                    Item::Short(c) => RecArg::Short(*c as u32),
                    Item::Value(v) => RecArg::Value(v.as_bytes().to_vec()),
                })
                .collect();
            if rig.proc.log.len() != 1 || rig.proc.log[0].args != want {
                report(rep, args, "C08", "classify", "end-to-end", idx, list.len(), J::s(&line), format!("typed {:?}: handler received {:?}, expected items {:?}", line, rig.proc.log, items));
            }
        }
    });
}


/// every scalar value as a short option, alone, inside a cluster, as a long option name and as a value
pub fn run_c08_scalars(args: &Args, rep: &mut Report) {
    const CHUNK: u32 = 0x1000;
    let chunks = (0x110000 / CHUNK) as u64;
    run_cases(args, "C08", chunks, rep, &mut |c, rep| {
        if !mine(args, c) {
            rep.cases -= 1;
            return;
        }
        let lo = c as u32 * CHUNK;
        let mut n = 0u64;
        for u in lo..lo + CHUNK {
            let ch = match char::from_u32(u) {
                Some(ch) if u >= 0x20 && u != 0x7f => ch,
                _ => continue,
            };
            n += 1;
            let lists: [Vec<String>; 2] = [vec![format!("-{}", ch), format!("-a{}b", ch)], vec![format!("--{}", ch), format!("{}", ch), "--".into(), format!("-{}", ch)]];
            for l in lists.iter() {
                let want = ref_classify(l);
                let got = real_classify(l);
                rep.evaluations += 1;
                if got != want {
                    report(rep, args, "C08", "classify", &format!("scalar-{}byte", ch.len_utf8()), c, 1, J::s(format!("U+{:04X}", u)), format!("tokens {:?} classified as {:?}, the statement requires {:?}", l, got, want));
                    break;
                }
            }
        }
        rep.distinct_disjoint += n;
        rep.count_n("c08.scalars", n);
    });
}
