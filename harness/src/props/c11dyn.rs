//! C11 on name sets chosen at run time: the derive can only be exercised with names fixed at compile time, so the library side
//! of completion (request extraction, candidate merging, common prefix, the editor's take-over, the echo) is also driven with a
//! hand-written `Autocomplete` implementation that does what the generated one does -- offer every name starting with the
//! typed word -- over thousands of random name sets whose names part company *inside* a character (same 64-code-point block,
//! boundary continuation octets 0x80 / 0xBF), in every declaration order.
use crate::declrun::tab_through_cli;
use crate::json::J;
use crate::prng::{hash_u64s, Rng};
use crate::refmodel::*;
use crate::report::Report;
use crate::runner::*;
use embedded_cli::service::{Autocomplete, Help};
use std::cell::RefCell;

thread_local! {
    pub static DYN_NAMES: RefCell<Vec<String>> = const { RefCell::new(Vec::new()) };
}

pub struct DynNames;

impl Autocomplete for DynNames {
    #[cfg(feature = "autocomplete")]
    fn autocomplete(request: embedded_cli::autocomplete::Request<'_>, autocompletion: &mut embedded_cli::autocomplete::Autocompletion<'_>) {
        let embedded_cli::autocomplete::Request::CommandName(name) = request else { return };
        DYN_NAMES.with(|names| {
            for n in names.borrow().iter().filter(|n| n.starts_with(name)) {
                autocompletion.merge_autocompletion(&n[name.len()..]);
            }
        });
    }
}

impl Help for DynNames {
    #[cfg(feature = "help")]
    fn command_count() -> usize {
        DYN_NAMES.with(|n| n.borrow().len())
    }
    #[cfg(feature = "help")]
    fn list_commands<W: embedded_io::Write<Error = E>, E: embedded_io::Error>(_writer: &mut embedded_cli::writer::Writer<'_, W, E>) -> Result<(), E> {
        Ok(())
    }
    #[cfg(feature = "help")]
    fn command_help<W: embedded_io::Write<Error = E>, E: embedded_io::Error, F: FnMut(&mut embedded_cli::writer::Writer<'_, W, E>) -> Result<(), E>>(
        _parent: &mut F,
        _command: embedded_cli::command::RawCommand<'_>,
        _writer: &mut embedded_cli::writer::Writer<'_, W, E>,
    ) -> Result<(), embedded_cli::service::HelpError<E>> {
        Err(embedded_cli::service::HelpError::UnknownCommand)
    }
}

fn block_char(rng: &mut Rng, base: u32, boundary: bool) -> char {
    for _ in 0..200 {
        let low = if boundary { *rng.pick(&[0x00u32, 0x01, 0x3e, 0x3f, 0x3f, 0x20]) } else { rng.below(64) as u32 };
        if let Some(c) = char::from_u32((base & !0x3f) | low) {
            if c as u32 > 0x20 && c != '"' && c != '\\' && c as u32 != 0x7f {
                return c;
            }
        }
    }
    'x' // a block without usable scalar values (surrogates)
}

fn gen_names(rng: &mut Rng) -> Vec<String> {
    // characters from one 64-code-point block (they share all octets but the last), sometimes from two neighbouring blocks
    // (they differ in the second-to-last octet), with boundary octets over-represented
    let base = loop {
        let c = crate::gen::random_scalar(rng) as u32;
        if rng.chance(40) {
            // second-to-last octet 0xBF or 0x80
            let hi = if rng.chance(50) { 0x3f } else { 0x00 };
            break (c & !0xfff) | (hi << 6);
        }
        break c;
    };
    let boundary = rng.chance(50);
    let shared: String = (0..rng.below(3)).map(|_| if rng.chance(50) { block_char(rng, base, boundary) } else { *rng.pick(&['s', 't', '-', 'h']) }).collect();
    let n = rng.range(2, 6);
    let mut names: Vec<String> = vec![];
    let mut guard = 0;
    while names.len() < n && guard < 100 {
        guard += 1;
        let mut s = shared.clone();
        for _ in 0..rng.range(1, 3) {
            let b = if rng.chance(25) { base ^ 0x40 } else { base };
            s.push(if rng.chance(80) { block_char(rng, b, boundary) } else { *rng.pick(&['a', 'b', '-']) });
        }
        if s != "help" && !names.contains(&s) && !s.starts_with('-') {
            names.push(s);
        }
    }
    names
}

pub fn run(args: &Args, rep: &mut Report) {
    let total: u64 = if args.thorough { 1_200_000 } else { 60_000 };
    let n = args.scaled(total) / args.nshards.max(1);
    run_cases(args, "C11", n, rep, &mut |idx, rep| {
        let mut rng = Rng::derive(args.seed ^ 0xD11, args.shard, idx);
        let names = gen_names(&mut rng);
        if names.len() < 2 {
            return;
        }
        DYN_NAMES.with(|d| *d.borrow_mut() = names.clone());
        let mut names_help = names.clone();
        names_help.push("help".into());
        let mut words: Vec<String> = vec![];
        for nm in &names {
            let cs: Vec<char> = nm.chars().collect();
            for k in 1..=cs.len() {
                let w: String = cs[..k].iter().collect();
                if !words.contains(&w) {
                    words.push(w);
                }
            }
        }
        rep.sample(names.iter().map(|n| n.len()).sum(), || J::obj().set("names", J::Arr(names.iter().map(J::s).collect())));
        for w in &words {
            for (variant, line) in [("plain", w.clone()), ("trailing-blank", format!("{} ", w))] {
                let nchars = line.chars().count();
                let cont_len = {
                    let (allowed, _, _) = ref_complete(&line, false, &names_help, 1000);
                    allowed.iter().map(|a| a.len()).max().unwrap_or(line.len()).saturating_sub(line.len())
                };
                let mut caps: Vec<usize> = vec![line.len(), line.len() + cont_len.saturating_sub(1), line.len() + cont_len, line.len() + cont_len + 1, 48];
                for d in 1..cont_len.min(5) {
                    caps.push(line.len() + d);
                }
                caps.sort_unstable();
                caps.dedup();
                for &cap in &caps {
                    let cursors: Vec<usize> = if variant == "plain" { vec![nchars] } else { vec![nchars, nchars - 1] };
                    for cur in cursors {
                        let l2 = line.clone();
                        let (post, term_ok) = tab_through_cli::<DynNames>(&l2, nchars - cur, cap);
                        rep.evaluations += 1;
                        let inside = cur < nchars;
                        let (allowed, class, nmatch) = ref_complete(&line, inside, &names_help, cap);
                        rep.count(if post != line { "c11.dyn.completed" } else { "c11.dyn.unchanged" });
                        rep.count(&format!("c11.dyn.fit.{:?}", class));
                        rep.distinct.insert(hash_u64s(&[111, crate::prng::hash_bytes(0, line.as_bytes()), crate::prng::hash_bytes(1, names.join("|").as_bytes()), cap as u64, inside as u64]));
                        let input = J::obj().set("names", J::Arr(names.iter().map(J::s).collect())).set("line", J::s(&line)).set("cursor", J::Int(cur as i64)).set("capacity", J::Int(cap as i64));
                        if post.contains('\u{fffd}') && !line.contains('\u{fffd}') && !names.iter().any(|n| n.contains('\u{fffd}')) {
                            // the edited line (what the next echo, Enter and recall hand out) is no longer UTF-8
                            report(rep, args, "C02", "handout-illformed", "completion-cut-inside-character", idx, line.len(), input.clone(), format!("names {:?}: Tab on {:?} (capacity {}) leaves an edited line that is not well-formed UTF-8: {:?}", names, line, cap, post));
                        }
                        if !allowed.contains(&post) {
                            let tag = format!("dyn-{:?}-{}-{}", class, nmatch.min(2), variant);
                            report(rep, args, "C11", "completion", &tag, idx, line.len(), input.clone(), format!("names {:?} (offered in this order): Tab on {:?} (cursor {}, capacity {}) gives {:?}; allowed {:?}", names, line, cur, cap, post, allowed));
                        } else if !term_ok.0 {
                            report(rep, args, "C11", "display-after-tab", "dyn-terminal", idx, line.len(), input, format!("names {:?}: after Tab on {:?} (cursor {}, capacity {}) the terminal shows {:?} col {}, the line is {:?}", names, line, cur, cap, term_ok.1, term_ok.2, post));
                        }
                    }
                }
            }
        }
    });
}
