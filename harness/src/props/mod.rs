pub mod sessions;
