pub mod c02;
pub mod c03;
pub mod c04;
pub mod c07;
pub mod c14;
pub mod c17;
pub mod closure;
pub mod sessions;
