pub mod c02;
pub mod c04;
pub mod c07;
pub mod sessions;
