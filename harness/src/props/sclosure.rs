//! Closure of whole-Cli sessions in small buffers: breadth-first over the *hooked state of the real Cli* (edited line, cursor,
//! stored history bytes, history selection) under a small key set that includes recall, completion and submission. Every key is
//! applied in every reachable state with all session monitors of the property on, so every interleaving of edit / recall /
//! completion / submit steps that leads to a distinct state is exercised, not only those a random walk happens to assemble.
use crate::json::J;
use crate::report::Report;
use crate::rig::*;
use crate::runner::*;
use crate::session::*;
use crate::sets::SetKind;
use std::collections::{HashSet, VecDeque};

type StateKey = (Vec<u8>, usize, Vec<u8>, Option<usize>);

fn keys_for(set: SetKind) -> Vec<(&'static str, Vec<Op>)> {
    let b = |s: &[u8]| -> Vec<Op> { s.iter().map(|&x| Op::Byte(x)).collect() };
    let mut v: Vec<(&'static str, Vec<Op>)> = vec![
        ("a", b(b"a")),
        ("blank", b(b" ")),
        ("é", b("é".as_bytes())),
        ("h", b(b"h")),
        ("backspace", b(b"\x08")),
        ("left", b(b"\x1b[D")),
        ("right", b(b"\x1b[C")),
        ("up", b(b"\x1b[A")),
        ("down", b(b"\x1b[B")),
        ("tab", b(b"\t")),
        ("enter", b(b"\r")),
        ("write", vec![Op::Write(vec![WCall { kind: WKind::Str, text: "o".into() }])]),
    ];
    match set {
        SetKind::FixA | SetKind::FixG => v.push(("b", b(b"b"))),
        SetKind::FixU => {
            v.push(("向", b("向".as_bytes())));
            v.push(("上", b("上".as_bytes())));
        }
        SetKind::Raw => v.push(("quote", b(b"\""))),
    }
    v
}

pub fn configs(thorough: bool) -> Vec<(usize, usize, SetKind, usize)> {
    // (command buffer, history buffer, set, prompt)
    let mut v = vec![];
    let cmds: &[usize] = if thorough { &[1, 2, 3, 4, 5, 6, 8] } else { &[2, 3, 4, 6] };
    let hists: &[usize] = if thorough { &[0, 2, 3, 4, 6, 9] } else { &[0, 3, 5, 8] };
    for (i, &c) in cmds.iter().enumerate() {
        for (j, &h) in hists.iter().enumerate() {
            let set = [SetKind::FixA, SetKind::Raw, SetKind::FixU, SetKind::FixG][(i + j) % 4];
            v.push((c, h, set, (i + 2 * j) % crate::rig::SMALL_PROMPTS));
        }
    }
    v
}

pub fn run(prop: &str, args: &Args, rep: &mut Report) {
    let mut env = SessionEnv::from_build(prop_bit(prop));
    if prop == "C16" {
        // every behavioural monitor, configured for this build's feature set
        env.enabled = P_C01 | P_C05 | P_C06 | P_C10 | P_C11 | P_C13 | P_C15 | P_C16;
    }
    let cfgs = configs(args.thorough);
    let max_states: usize = args.scaled(if args.thorough { 800_000 } else { 60_000 }) as usize;
    let prop_s = prop.to_string();
    run_cases(args, prop, cfgs.len() as u64, rep, &mut |ci, rep| {
        if !mine(args, ci) {
            rep.cases -= 1;
            return;
        }
        let (cmd, hist, set, prompt) = cfgs[ci as usize];
        let cfg = SessionCfg { cmd, hist, prompt, set, use_new: false, chunk: 0, script: vec![], pform: 0 };
        let keys = keys_for(set);
        let mut scratch = Report::new();
        let mut seen: HashSet<StateKey> = HashSet::new();
        // a path is the list of key indices that first reached the state
        let mut q: VecDeque<Vec<u8>> = VecDeque::new();
        let key_of = |st: &(EdState, Option<HistRaw>)| -> StateKey {
            let (e, h) = st;
            (e.line.clone(), e.cursor, h.as_ref().map(|h| h.used_bytes.clone()).unwrap_or_default(), h.as_ref().and_then(|h| h.cursor))
        };
        let r0 = run_guarded(&cfg, &[], &env, &mut scratch);
        let s0 = match &r0.final_state {
            Some(s) => key_of(s),
            None => return,
        };
        seen.insert(s0);
        q.push_back(vec![]);
        let mut transitions = 0u64;
        let mut complete_depth = 0usize;
        let mut reported: HashSet<(String, String)> = HashSet::new();
        let mut truncated = false;
        while let Some(kpath) = q.pop_front() {
            if seen.len() >= max_states {
                truncated = true;
                break;
            }
            let depth = kpath.len();
            complete_depth = depth;
            let path: Vec<Op> = kpath.iter().flat_map(|&k| keys[k as usize].1.iter().cloned()).collect();
            for (ki, (kname, kops)) in keys.iter().enumerate() {
                let mut ops = path.clone();
                ops.extend(kops.iter().cloned());
                let r = run_guarded(&cfg, &ops, &env, &mut scratch);
                transitions += 1;
                rep.evaluations += 1;
                rep.count(&format!("sclosure.key.{}", kname));
                for f in &r.found {
                    if f.op_index < path.len() {
                        continue; // belongs to the prefix: reported when that prefix was first run
                    }
                    if f.prop != prop_s && prop_s != "C16" {
                        continue;
                    }
                    if reported.insert((f.clause.to_string(), f.tag.clone())) {
                        let mut v = session_violation(&cfg, &ops, f);
                        v.clause = f.clause.to_string();
                        rep.violation(v);
                    }
                }
                if let Some(st) = &r.final_state {
                    if seen.insert(key_of(st)) {
                        let mut kp = kpath.clone();
                        kp.push(ki as u8);
                        q.push_back(kp);
                    }
                }
            }
        }
        rep.distinct_disjoint += seen.len() as u64;
        rep.count_n("sclosure.states", seen.len() as u64);
        rep.count_n("sclosure.transitions", transitions);
        if truncated {
            rep.count("sclosure.configs_cut_at_state_budget");
        } else {
            rep.count("sclosure.configs_closed");
        }
        rep.sample(cmd * 100 + hist, || {
            J::s(format!(
                "session closure cmd={} hist={} set={} prompt={:?}: {} states, {} transitions, every state first reached by <= {} keys expanded under all {} keys{}",
                cmd, hist, set.name(), PROMPTS[prompt], seen.len(), transitions, complete_depth, keys.len(), if truncated { " (state budget reached: not closed)" } else { " (closed: no new state)" }
            ))
        });
    });
}
