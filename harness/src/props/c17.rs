//! C17: every Unicode scalar value survives; the library's own UTF-8 helpers agree with core.
use crate::json::{show_bytes, J};
use crate::refmodel::*;
use crate::report::Report;
use crate::rig::*;
use crate::runner::*;
use crate::sets::{FixB, SetKind};
use crate::sink::MonSink;
use embedded_cli::__verif::utils;
use embedded_cli::command::RawCommand;

const CHUNK: u32 = 0x1000;
const NEIGH: [&str; 5] = ["", "a", "é", "€", "𐍈"];

fn scalars_of_chunk(c: u64) -> impl Iterator<Item = char> {
    let lo = (c as u32) * CHUNK;
    (lo..lo + CHUNK).filter_map(|u| if u >= 0x20 && u != 0x7f { char::from_u32(u) } else { None })
}

fn len_class(c: char) -> &'static str {
    match c.len_utf8() {
        1 => "1-byte",
        2 => "2-byte",
        3 => "3-byte",
        _ => "4-byte",
    }
}

/// pure helper functions against core, for one scalar
fn pure_checks(c: char, rep: &mut Report, args: &Args, case: u64) -> bool {
    let mut b4 = [0u8; 4];
    let enc = c.encode_utf8(&mut b4).to_string();
    let fail = |rep: &mut Report, f: &str, detail: String| {
        report(rep, args, "C17", "pure-function", &format!("{}-{}", f, len_class(c)), case, 1, J::s(format!("U+{:04X}", c as u32)), format!("U+{:04X}: {}", c as u32, detail));
    };
    // encode_utf8
    let mut mine = [0u8; 4];
    let got = utils::encode_utf8(c, &mut mine).as_bytes().to_vec();
    rep.evaluations += 1;
    if got != enc.as_bytes() {
        fail(rep, "encode_utf8", format!("encode_utf8 gives {}, core gives {}", show_bytes(&got), show_bytes(enc.as_bytes())));
        return false;
    }
    for n in NEIGH {
        // char_pop_front(c + n) == (c, n)
        let s = format!("{}{}", enc, n);
        rep.evaluations += 1;
        match utils::char_pop_front(&s) {
            Some((pc, rest)) if pc == c && rest == n => {}
            other => {
                fail(rep, "char_pop_front", format!("char_pop_front({:?}) = {:?}", s, other.map(|(a, b)| (a as u32, b.to_string()))));
                return false;
            }
        }
        for n2 in NEIGH {
            // char_count / char_byte_index on n c n2
            let s = format!("{}{}{}", n, enc, n2);
            let cc = s.chars().count();
            rep.evaluations += 2;
            if utils::char_count(&s) != cc {
                fail(rep, "char_count", format!("char_count({:?}) = {}, core {}", s, utils::char_count(&s), cc));
                return false;
            }
            for (ci, (bi, _)) in s.char_indices().enumerate() {
                if utils::char_byte_index(&s, ci) != Some(bi) {
                    fail(rep, "char_byte_index", format!("char_byte_index({:?}, {}) = {:?}, core {}", s, ci, utils::char_byte_index(&s, ci), bi));
                    return false;
                }
            }
            if utils::char_byte_index(&s, cc).is_some() {
                fail(rep, "char_byte_index", format!("char_byte_index({:?}, {}) is Some past the end", s, cc));
                return false;
            }
        }
    }
    // common_prefix_len: (c x, c y) -> len(c); (c, c) -> len(c); (c, sibling sharing leading octets) -> 0
    rep.evaluations += 3;
    let cx = format!("{}x", enc);
    let cy = format!("{}y€", enc);
    if utils::common_prefix_len(&cx, &cy) != enc.len() || utils::common_prefix_len(&enc, &enc) != enc.len() {
        fail(rep, "common_prefix_len", format!("common_prefix_len({:?},{:?}) = {}", cx, cy, utils::common_prefix_len(&cx, &cy)));
        return false;
    }
    if let Some(sib) = char::from_u32((c as u32) ^ 1) {
        if sib.len_utf8() == c.len_utf8() && sib != c {
            let s2 = sib.to_string();
            let want = 0;
            let pre = format!("é{}", enc);
            let pre2 = format!("é{}", s2);
            if utils::common_prefix_len(&enc, &s2) != want || utils::common_prefix_len(&pre, &pre2) != 2 {
                fail(rep, "common_prefix_len", format!("common_prefix_len({:?},{:?}) = {} (characters differ only in the last octet)", enc, s2, utils::common_prefix_len(&enc, &s2)));
                return false;
            }
        }
    }
    true
}

fn feed<C: embedded_cli::service::Autocomplete + embedded_cli::service::Help>(rig: &mut Rig<'_, C>, bytes: &[u8]) {
    for &b in bytes {
        rig.byte(b).expect("sink never fails");
    }
}

fn out_since(sink: &MonSink, mark: &mut usize) -> Vec<u8> {
    let s = sink.0.borrow();
    let o = s.bytes[*mark..].to_vec();
    *mark = s.bytes.len();
    o
}

/// typing, echo, moving over, deleting, submitting, recalling, option use -- through a real Cli
fn cli_checks(c: char, x: &str, y: &str, rep: &mut Report, args: &Args, case: u64) -> bool {
    let enc = c.to_string();
    let fail = |rep: &mut Report, what: &str, detail: String| {
        report(rep, args, "C17", "through-cli", &format!("{}-{}", what, len_class(c)), case, 1, J::s(format!("U+{:04X} between {:?} and {:?}", c as u32, x, y)), format!("U+{:04X} ({:?}{:?}{:?}): {}", c as u32, x, enc, y, detail));
    };
    let mut cmd = vec![0u8; 48].into_boxed_slice();
    let mut hist = vec![0u8; 48].into_boxed_slice();
    let sink = MonSink::new();
    let mut rig: Rig<'_, RawCommand<'static>> = Rig::build(&mut cmd, &mut hist, 0, false, sink.clone(), RecProc::new(vec![], None)).expect("build");
    let mut mark = sink.0.borrow().bytes.len();
    let mut m = RefEditor::new(48);
    // type x c y ; the echo of c is exactly its encoding
    feed(&mut rig, x.as_bytes());
    out_since(&sink, &mut mark);
    feed(&mut rig, enc.as_bytes());
    let echo = out_since(&sink, &mut mark);
    rep.evaluations += 1;
    if echo != enc.as_bytes() {
        fail(rep, "echo", format!("echo of the character is {}", show_bytes(&echo)));
        return false;
    }
    feed(&mut rig, y.as_bytes());
    for ch in x.chars().chain(enc.chars()).chain(y.chars()) {
        m.insert(ch);
    }
    let cmp = |rig: &Rig<'_, RawCommand<'static>>, m: &RefEditor, rep: &mut Report, step: &str| -> bool {
        let e = rig.editor();
        rep.evaluations += 1;
        if e.line != m.text().as_bytes() || e.cursor != m.cursor {
            fail(rep, step, format!("after {} the line is {:?}/{}, expected {:?}/{}", step, show_bytes(&e.line), e.cursor, m.text(), m.cursor));
            return false;
        }
        true
    };
    if !cmp(&rig, &m, rep, "typing") {
        return false;
    }
    // Left over y, Left over c, Right over c, Backspace deletes c, retype c in the middle
    for _ in 0..y.chars().count() {
        feed(&mut rig, b"\x1b[D");
        m.left();
    }
    feed(&mut rig, b"\x1b[D");
    m.left();
    if !cmp(&rig, &m, rep, "move-left-over") {
        return false;
    }
    feed(&mut rig, b"\x1b[C");
    m.right();
    if !cmp(&rig, &m, rep, "move-right-over") {
        return false;
    }
    feed(&mut rig, b"\x08");
    m.backspace();
    if !cmp(&rig, &m, rep, "delete") {
        return false;
    }
    out_since(&sink, &mut mark);
    feed(&mut rig, enc.as_bytes());
    m.insert(c);
    let echo = out_since(&sink, &mut mark);
    rep.evaluations += 1;
    if !echo.ends_with(enc.as_bytes()) {
        fail(rep, "echo-inside", format!("echo of the character inserted inside the line is {}", show_bytes(&echo)));
        return false;
    }
    if !cmp(&rig, &m, rep, "retype-inside") {
        return false;
    }
    // submit: the handler receives what the reference tokenizer makes of the line
    let line1 = m.text();
    feed(&mut rig, b"\r");
    if !expect_dispatch(&rig, &line1, 0, rep, &fail) {
        return false;
    }
    // recall: byte for byte
    feed(&mut rig, b"\x1b[A");
    let e = rig.editor();
    rep.evaluations += 1;
    if e.line != line1.as_bytes() {
        fail(rep, "recall", format!("Up recalls {:?}, submitted {:?}", show_bytes(&e.line), line1));
        return false;
    }
    // the recalled line is edited like any other: the cursor is a character position inside it
    rep.evaluations += 1;
    if e.cursor > line1.chars().count() {
        fail(rep, "recall-cursor", format!("after Up the cursor is at {} in a line of {} characters", e.cursor, line1.chars().count()));
        return false;
    }
    let mut m = RefEditor::new(48);
    m.set(&line1, e.cursor);
    feed(&mut rig, b"\x08");
    m.backspace();
    if !cmp(&rig, &m, rep, "recall-then-backspace") {
        return false;
    }
    feed(&mut rig, b"\x1b[D");
    m.left();
    feed(&mut rig, enc.as_bytes());
    m.insert(c);
    if !cmp(&rig, &m, rep, "recall-then-insert") {
        return false;
    }
    feed(&mut rig, b"\x1b[C");
    m.right();
    feed(&mut rig, b"\x1b[C");
    m.right();
    if !cmp(&rig, &m, rep, "recall-then-right") {
        return false;
    }
    let line1b = m.text();
    let n0 = rig.proc.log.len();
    feed(&mut rig, b"\r");
    if !expect_dispatch(&rig, &line1b, n0, rep, &fail) {
        return false;
    }
    // as command name, value, short option and value after --
    let line2 = format!("{c} {c} -{c} -- {c}", c = enc);
    let n0 = rig.proc.log.len();
    feed(&mut rig, line2.as_bytes());
    feed(&mut rig, b"\n");
    if !expect_dispatch(&rig, &line2, n0, rep, &fail) {
        return false;
    }
    true
}

fn expect_dispatch(rig: &Rig<'_, RawCommand<'static>>, line: &str, n0: usize, rep: &mut Report, fail: &dyn Fn(&mut Report, &str, String)) -> bool {
    rep.evaluations += 1;
    let alts = ref_tokenize_set(line);
    let recs = &rig.proc.log[n0..];
    let mut ok = false;
    for toks in &alts {
        if toks.is_empty() {
            ok |= recs.is_empty();
            continue;
        }
        let items = ref_classify(&toks[1..]);
        let (is_help, open) = help_shape(&toks[0], &items);
        if is_help && cfg!(feature = "help") {
            ok |= recs.is_empty();
            continue;
        }
        if open && recs.is_empty() {
            ok = true;
            continue;
        }
        if recs.len() == 1 && recs[0].name == toks[0].as_bytes() {
            let want: Vec<RecArg> = items
                .iter()
                .map(|i| match i {
                    Item::DoubleDash => RecArg::DoubleDash,
                    Item::Long(n) => RecArg::Long(n.as_bytes().to_vec()),
                    Item::Short(c) => RecArg::Short(*c as u32),
                    Item::Value(v) => RecArg::Value(v.as_bytes().to_vec()),
                })
                .collect();
            ok |= recs[0].args == want;
        }
    }
    if !ok {
        fail(rep, "submit", format!("line {:?}: handler received {:?}; the statement requires the tokens {:?}", line, recs, alts));
    }
    ok
}

/// `error: unexpected option: -c` rendered through process_error (encode_utf8 inside the library)
fn error_render_check(c: char, rep: &mut Report, args: &Args, case: u64) -> bool {
    if c == 'h' || c == '-' || c == ' ' || c == '"' {
        return true;
    }
    let mut cmd = vec![0u8; 32].into_boxed_slice();
    let mut hist = vec![0u8; 0].into_boxed_slice();
    let sink = MonSink::new();
    let mut rig: Rig<'_, FixB> = Rig::build(&mut cmd, &mut hist, 0, false, sink.clone(), RecProc::new(vec![], SetKind::FixG.parse_fn().and(Some(parse_fixb)))).expect("build");
    let mark = sink.0.borrow().bytes.len();
    let line = format!("ba -{}", c);
    feed(&mut rig, line.as_bytes());
    feed(&mut rig, b"\r");
    let out = sink.0.borrow().bytes[mark..].to_vec();
    rep.evaluations += 1;
    let want = format!("unexpected option: -{}\r\n", c);
    let text = String::from_utf8_lossy(&out).to_string();
    if !text.contains(&want) {
        report(rep, args, "C17", "through-cli", &format!("error-line-{}", len_class(c)), case, 1, J::s(format!("U+{:04X}", c as u32)), format!("U+{:04X}: `ba -{}` printed {:?}, expected it to contain {:?}", c as u32, c, show_bytes(&out), want));
        return false;
    }
    true
}

fn parse_fixb<'a>(raw: RawCommand<'a>) -> Result<String, embedded_cli::service::ParseError<'a>> {
    use embedded_cli::service::FromRaw;
    FixB::parse(raw).map(|c| format!("{:?}", c))
}

/// short options *declared* with characters of every length (generated from a non-ASCII field identifier, or explicit):
/// typed alone, in a cluster and with a value, each must reach its field
fn declared_short_options(rep: &mut Report, args: &Args) {
    use crate::sets::{parse_fixn, FixN};
    let cases: [(&str, &str); 7] = [
        ("n -ч", "число: true, über: false, 語: None, goth: false, plain: false"),
        ("n -ü", "число: false, über: true, 語: None, goth: false, plain: false"),
        ("n -語 7", "число: false, über: false, 語: Some(7), goth: false, plain: false"),
        ("n -𐍈", "число: false, über: false, 語: None, goth: true, plain: false"),
        ("n -p", "число: false, über: false, 語: None, goth: false, plain: true"),
        ("n -чü𐍈p", "число: true, über: true, 語: None, goth: true, plain: true"),
        ("n -𐍈ü -語 255 -ч", "число: true, über: true, 語: Some(255), goth: true, plain: false"),
    ];
    for (line, want) in cases {
        let mut cmd = vec![0u8; 64].into_boxed_slice();
        let mut hist = vec![0u8; 0].into_boxed_slice();
        let sink = MonSink::new();
        let mut rig: Rig<'_, FixN> = Rig::build(&mut cmd, &mut hist, 0, false, sink.clone(), RecProc::new(vec![], Some(parse_fixn))).expect("build");
        feed(&mut rig, line.as_bytes());
        feed(&mut rig, b"\r");
        rep.evaluations += 1;
        rep.count("c17.declared_short_option_lines");
        let got = rig.proc.log.first().and_then(|r| r.parsed.clone());
        let ok = matches!(&got, Some(Ok(d)) if d.contains(want));
        if !ok {
            report(rep, args, "C17", "through-cli", "declared-short-option", 0, 1, J::s(line), format!("line {:?} on a command whose short options are ч ü 語 (generated from the field names), 𐍈 (explicit) and p: parsed as {:?}, expected the fields {{ {} }}", line, got, want));
        }
    }
}

pub fn run(args: &Args, rep: &mut Report) {
    let chunks = (0x110000 / CHUNK) as u64;
    let thorough = args.thorough;
    if args.shard == 0 && args.start == 0 {
        declared_short_options(rep, args);
    }
    run_cases(args, "C17", chunks, rep, &mut |c, rep| {
        if !mine(args, c) {
            rep.cases -= 1;
            return;
        }
        let mut n = 0u64;
        let mut ncli = 0u64;
        for ch in scalars_of_chunk(c) {
            n += 1;
            if !pure_checks(ch, rep, args, c) {
                continue;
            }
            // through the Cli: all scalars; neighbours of every length in thorough, two combinations in quick
            let combos: &[(&str, &str)] = if thorough {
                &[("x", "y"), ("é", "a"), ("€", "𐍈"), ("𐍈", "é"), ("a", "€"), ("é", "é"), ("€", "a"), ("𐍈", "𐍈")]
            } else if (ch as u32) % 2 == 0 {
                &[("x", "y")]
            } else {
                &[("é", "𐍈")]
            };
            for (x, y) in combos {
                ncli += 1;
                if !cli_checks(ch, x, y, rep, args, c) {
                    break;
                }
            }
            error_render_check(ch, rep, args, c);
        }
        rep.distinct_disjoint += n;
        rep.count_n("c17.scalars", n);
        rep.count_n("c17.cli_mini_sessions", ncli);
        if n > 0 {
            rep.sample(c as usize, || J::s(format!("scalars U+{:04X}..U+{:04X}: pure helpers vs core with neighbours of every length; typed/echoed/moved over/deleted/retyped/submitted/recalled/used as name, value and short option through a Cli", c as u32 * CHUNK, c as u32 * CHUNK + CHUNK - 1)));
        }
    });
}

/// Every scalar value inside a command name that Tab has to complete, with the free space of the buffer ending before, inside
/// (after each of its octets) and after the character: the completion must stop at a character boundary (C17: the library's
/// indexing computations agree with UTF-8 for every scalar value; C11: extends as far as the buffer permits; C02: the line stays
/// well-formed). Names are offered by the run-time `Autocomplete` of C11-dyn.
pub fn run_complete(args: &Args, rep: &mut Report) {
    use crate::declrun::tab_through_cli;
    use crate::props::c11dyn::{DynNames, DYN_NAMES};
    use crate::refmodel::ref_complete;
    let chunks = (0x110000 / CHUNK) as u64;
    run_cases(args, "C17", chunks, rep, &mut |c, rep| {
        if !mine(args, c) {
            rep.cases -= 1;
            return;
        }
        let mut n = 0u64;
        for ch in scalars_of_chunk(c) {
            if (ch as u32) < 0x80 || ch == '\u{fffd}' {
                continue;
            }
            n += 1;
            // one candidate (`s<c>t`), and two that part company after the character (`s<c>a`, `s<c>b`: continuation = the character)
            let sets: [Vec<String>; 2] = [vec![format!("s{}t", ch)], vec![format!("s{}a", ch), format!("s{}b", ch)]];
            for names in sets.iter() {
                DYN_NAMES.with(|d| *d.borrow_mut() = names.clone());
                let mut names_help = names.clone();
                names_help.push("help".into());
                let line = "s";
                for cap in 1..=(1 + ch.len_utf8() + 2) {
                    let (post, term_ok) = tab_through_cli::<DynNames>(line, 0, cap);
                    rep.evaluations += 1;
                    let (allowed, _class, _n) = ref_complete(line, false, &names_help, cap);
                    let input = J::s(format!("U+{:04X} names {:?} capacity {}", ch as u32, names, cap));
                    if post.contains('\u{fffd}') {
                        report(rep, args, "C17", "completion-cut-inside-character", &format!("{}-byte", ch.len_utf8()), c, 1, input.clone(), format!("names {:?}: Tab on \"s\" in a {}-byte buffer leaves a line that is not well-formed UTF-8: {:?}", names, cap, post));
                        report(rep, args, "C02", "handout-illformed", "completion-cut-inside-character", c, 1, input.clone(), format!("names {:?}: Tab on \"s\" in a {}-byte buffer leaves a line that is not well-formed UTF-8: {:?}", names, cap, post));
                    }
                    if !allowed.contains(&post) {
                        report(rep, args, "C17", "completion-around-character", &format!("{}-byte", ch.len_utf8()), c, 1, input.clone(), format!("names {:?}: Tab on \"s\" in a {}-byte buffer gives {:?}; allowed {:?}", names, cap, post, allowed));
                        report(rep, args, "C11", "completion", "every-scalar", c, 1, input, format!("names {:?}: Tab on \"s\" in a {}-byte buffer gives {:?}; allowed {:?}", names, cap, post, allowed));
                    } else if !term_ok.0 {
                        report(rep, args, "C17", "echo-after-completion", &format!("{}-byte", ch.len_utf8()), c, 1, input, format!("names {:?}: after Tab in a {}-byte buffer the terminal shows {:?}, the line is {:?}", names, cap, term_ok.1, post));
                    }
                }
            }
        }
        rep.distinct_disjoint += n;
        rep.count_n("c17.complete.scalars", n);
    });
}

/// A sample of scalar values for the slow interpreters (Miri on 32-bit and big-endian targets): the first and last value of every
/// encoded length, both sides of the surrogate gap, every value with a lead or continuation octet at the edge of its range, the
/// noncharacters, and a few hundred seeded random ones -- pure helpers against core, and the typed / echoed / edited / submitted /
/// recalled mini-session through a real Cli for a sixth of them.
pub fn run_sample(args: &Args, rep: &mut Report) {
    let mut list: Vec<u32> = vec![
        0x20, 0x21, 0x22, 0x2d, 0x5c, 0x68, 0x7e, 0x80, 0x81, 0xa0, 0xbf, 0xc0, 0xff, 0x100, 0x3ff, 0x400, 0x7ff, 0x800, 0x801, 0xfff, 0x1000, 0x2028, 0x20ac, 0xcfff, 0xd000, 0xd7ff,
        0xe000, 0xe001, 0xfdd0, 0xfeff, 0xfffd, 0xfffe, 0xffff, 0x10000, 0x10001, 0x1003f, 0x10040, 0x10348, 0x1ffff, 0x3ffff, 0x40000, 0xfffff, 0x100000, 0x10fffe, 0x10ffff, 0x9b, 0x85, 0x201b, 0x1f4db,
    ];
    let mut rng = crate::prng::Rng::derive(args.seed ^ 0x5a17, 0, 0);
    let extra = if args.thorough { 1200 } else { 240 };
    for _ in 0..extra {
        list.push(crate::gen::random_scalar(&mut rng) as u32);
    }
    let n = list.len() as u64;
    run_cases(args, "C17", n, rep, &mut |i, rep| {
        if !mine(args, i) {
            rep.cases -= 1;
            return;
        }
        let ch = match char::from_u32(list[i as usize]) {
            Some(c) => c,
            None => return,
        };
        rep.count("c17.sample.scalars");
        if pure_checks(ch, rep, args, i) && crate::prng::hash_u64s(&[i, 17]) % 6 == 0 {
            rep.count("c17.sample.cli_mini_sessions");
            let (x, y) = [("x", "y"), ("é", "𐍈"), ("€", "a")][i as usize % 3];
            cli_checks(ch, x, y, rep, args, i);
        }
    });
}
