//! C14: fault enumeration at the output sink. For every scenario of the corpus the target API
//! call(s) are first run fault-free to count their sink calls, then every single sink call
//! position is failed in turn, once and permanently, and the session is continued with a
//! repaired sink.
use crate::json::{show_bytes, J};
use crate::prng::hash_u64s;
use crate::refmodel::*;
use crate::report::Report;
use crate::rig::*;
use crate::runner::*;
use crate::session::{show_ops, Op};
use crate::sets::SetKind;
use crate::sink::{Fault, MonSink, SinkErr};
use embedded_cli::service::{Autocomplete, Help};

#[derive(Clone, Debug)]
pub struct Scenario {
    pub name: String,
    pub class: &'static str,
    pub set: SetKind,
    pub cmd: usize,
    pub hist: usize,
    pub prompt: usize,
    pub script: Vec<HAction>,
    /// handler form (RecProc::pform)
    pub pform: u8,
    pub setup: Vec<Op>,
    /// None = the target is build() itself
    pub target: Option<Vec<Op>>,
}

fn mkproc(sc: &Scenario) -> RecProc {
    let mut p = RecProc::new(sc.script.clone(), sc.set.parse_fn());
    p.pform = sc.pform;
    p
}

fn bytes(s: &str) -> Vec<Op> {
    s.bytes().map(Op::Byte).collect()
}
fn w(kind: WKind, t: &str) -> WCall {
    WCall { kind, text: t.to_string() }
}

pub fn corpus() -> Vec<Scenario> {
    let mut v: Vec<Scenario> = vec![];
    let left = "\x1b[D";
    let up = "\x1b[A";
    let down = "\x1b[B";
    let mut add = |name: &str, class: &'static str, set: SetKind, script: Vec<HAction>, setup: Vec<Op>, target: Vec<Op>| {
        v.push(Scenario { name: format!("{}/{}", set.name(), name), class, set, cmd: 40, hist: 64, prompt: 0, script, pform: 0, setup, target: Some(target) });
    };
    let silent: Vec<HAction> = vec![];
    let writes = |calls: Vec<WCall>| vec![HAction { writes: calls, set_prompt: None, fail: false, reject: false }];
    for set in [SetKind::Raw, SetKind::FixA, SetKind::FixG] {
        // ---- editing
        add("type-at-end", "echo", set, silent.clone(), bytes("ab"), bytes("c"));
        add("type-inside", "echo", set, silent.clone(), bytes(&format!("ab{}", left)), bytes("c"));
        add("type-multibyte-inside", "echo", set, silent.clone(), bytes(&format!("a€b{}{}", left, left)), bytes("é"));
        add("backspace-at-end", "edit", set, silent.clone(), bytes("ab"), bytes("\x08"));
        add("backspace-inside", "edit", set, silent.clone(), bytes(&format!("a€b{}", left)), bytes("\x08"));
        add("left", "move", set, silent.clone(), bytes("ab"), bytes(left));
        add("right", "move", set, silent.clone(), bytes(&format!("ab{}{}", left, left)), bytes("\x1b[C"));
        // ---- history
        let h2 = format!("abc x\rb \"q r\"\r");
        add("up", "recall", set, silent.clone(), bytes(&h2), bytes(up));
        add("up-up", "recall", set, silent.clone(), bytes(&format!("{}{}", h2, up)), bytes(up));
        add("up-over-typed-text", "recall", set, silent.clone(), bytes(&format!("{}zz", h2)), bytes(up));
        add("down-after-up-up", "recall", set, silent.clone(), bytes(&format!("{}{}{}", h2, up, up)), bytes(down));
        add("down-past-newest", "recall", set, silent.clone(), bytes(&format!("{}{}", h2, up)), bytes(down));
        // ---- Enter
        add("enter-silent", "enter", set, silent.clone(), bytes("ab x"), bytes("\r"));
        add("enter-quoted-line", "enter", set, silent.clone(), bytes("ab \"x  y\" z"), bytes("\r"));
        add("enter-crlf", "enter", set, silent.clone(), bytes("ab x"), bytes("\r\n"));
        add("enter-empty-line", "enter", set, silent.clone(), vec![], bytes("\n"));
        add("enter-blank-line", "enter", set, silent.clone(), bytes("   "), bytes("\r"));
        add("enter-inside-line", "enter", set, silent.clone(), bytes(&format!("ab xy{}", left)), bytes("\r"));
        add("enter-handler-writes", "enter-output", set, writes(vec![w(WKind::Str, "out")]), bytes("ab x"), bytes("\r"));
        add("enter-handler-writes-nl", "enter-output", set, writes(vec![w(WKind::Str, "l1\nl2\n")]), bytes("ab x"), bytes("\r"));
        add("enter-handler-writeln-fmt", "enter-output", set, writes(vec![w(WKind::Ln, "a"), w(WKind::Fmt, "b"), w(WKind::Ufmt, "c\n"), w(WKind::Str, "")]), bytes("ab x"), bytes("\r"));
        add("enter-handler-prompt", "enter-output", set, vec![HAction { writes: vec![w(WKind::Str, "p")], set_prompt: Some(3), fail: false, reject: false }], bytes("ab x"), bytes("\r"));
        // ---- application calls
        add("write-empty", "write", set, silent.clone(), bytes("ab"), vec![Op::Write(vec![])]);
        add("write-one", "write", set, silent.clone(), bytes(&format!("ab{}", left)), vec![Op::Write(vec![w(WKind::Str, "note")])]);
        add("write-three-lines", "write", set, silent.clone(), bytes("ab"), vec![Op::Write(vec![w(WKind::Ln, "1"), w(WKind::Str, "2\n3"), w(WKind::Fmt, "\n")])]);
        add("set-prompt", "set_prompt", set, silent.clone(), bytes(&format!("ab{}", left)), vec![Op::SetPrompt(4)]);
        add("set-prompt-empty-line", "set_prompt", set, silent.clone(), vec![], vec![Op::SetPrompt(1)]);
    }
    // ---- completion
    for set in [SetKind::FixA, SetKind::FixG] {
        add("tab-unique", "tab", set, silent.clone(), bytes("abb"), bytes("\t"));
        add("tab-unique-multibyte", "tab", set, silent.clone(), bytes("hé"), bytes("\t"));
        add("tab-inside-word", "tab", set, silent.clone(), bytes(&format!("abb{}", left)), bytes("\t"));
        add("tab-ambiguous", "tab", set, silent.clone(), bytes("a"), bytes("\t"));
        add("tab-no-match", "tab", set, silent.clone(), bytes("zz"), bytes("\t"));
    }
    add("tab-partial", "tab", SetKind::FixG, silent.clone(), bytes("hel"), bytes("\t"));
    add("tab-help-builtin", "tab", SetKind::Raw, silent.clone(), bytes("he"), bytes("\t"));
    // ---- parse errors and help
    for set in [SetKind::FixA, SetKind::FixG] {
        add("parse-missing-argument", "parse-error", set, silent.clone(), bytes("ab"), bytes("\r"));
        add("parse-unexpected-argument", "parse-error", set, silent.clone(), bytes("ab x y z"), bytes("\r"));
        add("parse-unexpected-long", "parse-error", set, silent.clone(), bytes("ab --nope x"), bytes("\r"));
        add("parse-unexpected-short", "parse-error", set, silent.clone(), bytes("ab -€ x"), bytes("\r"));
        add("parse-bad-value", "parse-error", set, silent.clone(), bytes("ab -b 999 x"), bytes("\r"));
        add("parse-missing-subcommand", "parse-error", set, silent.clone(), bytes("ha"), bytes("\r"));
        add("parse-unknown-subcommand", "parse-error", set, silent.clone(), bytes("ha nope"), bytes("\r"));
        add("help-list", "help", set, silent.clone(), bytes("help"), bytes("\r"));
        add("help-command", "help", set, silent.clone(), bytes("help ab"), bytes("\r"));
        add("help-option-long", "help", set, silent.clone(), bytes("ab x --help"), bytes("\r"));
        add("help-option-short", "help", set, silent.clone(), bytes("b -h"), bytes("\r"));
        add("help-nested", "help", set, silent.clone(), bytes("help ha take"), bytes("\r"));
        add("help-nested-option", "help", set, silent.clone(), bytes("ha --level 3 take -h"), bytes("\r"));
        add("help-unknown", "help", set, silent.clone(), bytes("help nope"), bytes("\r"));
    }
    add("parse-unknown-command", "parse-error", SetKind::FixA, silent.clone(), bytes("zzz 1"), bytes("\r"));
    add("help-second-group", "help-group", SetKind::FixG, silent.clone(), bytes("help ba"), bytes("\r"));
    add("help-second-group-option", "help-group", SetKind::FixG, silent.clone(), bytes("ba 1 -h"), bytes("\r"));
    add("help-hidden-group", "help-group", SetKind::FixG, silent.clone(), bytes("help hidden"), bytes("\r"));
    add("second-group-parse-error", "parse-error", SetKind::FixG, silent.clone(), bytes("ba x"), bytes("\r"));
    add("raw-group-member", "enter", SetKind::FixG, writes(vec![w(WKind::Str, "raw")]), bytes("other 1 2"), bytes("\r"));
    add("help-raw", "help", SetKind::Raw, silent.clone(), bytes("help"), bytes("\r"));
    add("help-raw-command", "help", SetKind::Raw, silent.clone(), bytes("x --help"), bytes("\r"));
    // ---- build()
    v.push(Scenario { name: "raw/build".into(), class: "build", set: SetKind::Raw, cmd: 8, hist: 8, prompt: 3, script: vec![], pform: 0, setup: vec![], target: None });
    v
}

fn apply<C: Autocomplete + Help>(rig: &mut Rig<'_, C>, op: &Op) -> Result<(), SinkErr> {
    match op {
        Op::Byte(b) => rig.byte(*b),
        Op::Write(c) => rig.write(c),
        Op::SetPrompt(p) => rig.set_prompt(*p),
    }
}

struct FaultFree {
    c0: usize,
    c1: usize,
    /// editor state after each target API call
    posts: Vec<EdState>,
}

fn fault_free<C: Autocomplete + Help>(sc: &Scenario) -> FaultFree {
    let mut cmd = vec![0u8; sc.cmd].into_boxed_slice();
    let mut hist = vec![0u8; sc.hist].into_boxed_slice();
    let sink = MonSink::new();
    let c_before_build = sink.0.borrow().calls;
    let mut rig: Rig<'_, C> = Rig::build(&mut cmd, &mut hist, sc.prompt, false, sink.clone(), mkproc(sc)).expect("fault-free build");
    if sc.target.is_none() {
        let c1 = sink.0.borrow().calls;
        return FaultFree { c0: c_before_build, c1, posts: vec![] };
    }
    for op in &sc.setup {
        apply(&mut rig, op).expect("fault-free setup");
    }
    let c0 = sink.0.borrow().calls;
    let mut posts = vec![];
    for op in sc.target.as_ref().unwrap() {
        apply(&mut rig, op).expect("fault-free target");
        posts.push(rig.editor());
    }
    let c1 = sink.0.borrow().calls;
    FaultFree { c0, c1, posts }
}

fn one_position<C: Autocomplete + Help>(sc: &Scenario, ff: &FaultFree, k: usize, sticky: bool, rep: &mut Report, args: &Args, case: u64) {
    let mode = if sticky { "sticky" } else { "once" };
    let input = J::s(format!("{} fail sink call {} ({}) [setup: {} | target: {}]", sc.name, k - ff.c0, mode, show_ops(&sc.setup), sc.target.as_ref().map(|t| show_ops(t)).unwrap_or("build()".into())));
    let ctx = format!("scenario {} with sink call #{} of the target failing {}", sc.name, k - ff.c0, mode);
    let fail = |rep: &mut Report, clause: &str, tag: &str, detail: String| {
        report(rep, args, "C14", clause, tag, case, k - ff.c0, input.clone(), format!("{}: {}", ctx, detail));
    };
    let mut cmd = vec![0u8; sc.cmd].into_boxed_slice();
    let mut hist = vec![0u8; sc.hist].into_boxed_slice();
    let sink = MonSink::new();
    let fault = if sticky { Fault::Sticky(k) } else { Fault::Once(k) };
    rep.evaluations += 1;
    rep.distinct.insert(hash_u64s(&[14, crate::prng::hash_bytes(0, sc.name.as_bytes()), (k - ff.c0) as u64, sticky as u64]));
    if sc.target.is_none() {
        sink.0.borrow_mut().fault = fault;
        let r: Result<Rig<'_, C>, SinkErr> = Rig::build(&mut cmd, &mut hist, sc.prompt, false, sink.clone(), RecProc::new(vec![], None));
        rep.count("c14.positions_fired");
        match r {
            Err(e) if (!sticky && e.0 == k) || (sticky && e.0 >= k) => {}
            Err(e) => fail(rep, "wrong-error", "build", format!("build returned {:?}", e)),
            Ok(_) => fail(rep, "error-swallowed", "build", "build returned Ok".into()),
        }
        return;
    }
    let mut rig: Rig<'_, C> = Rig::build(&mut cmd, &mut hist, sc.prompt, false, sink.clone(), mkproc(sc)).expect("build");
    for op in &sc.setup {
        apply(&mut rig, op).expect("setup runs with a working sink");
    }
    sink.0.borrow_mut().fault = fault;
    let mut fired = false;
    let mut failed_op: Option<Op> = None;
    for (j, op) in sc.target.as_ref().unwrap().iter().enumerate() {
        let pre = rig.editor();
        let log0 = rig.proc.log.len();
        let r = apply(&mut rig, op);
        let post = rig.editor();
        let failed_now = !sink.0.borrow().failed_calls.is_empty();
        if !failed_now {
            if r.is_err() {
                fail(rep, "wrong-error", sc.class, format!("call returned {:?} before any sink call failed", r));
                return;
            }
            continue;
        }
        fired = true;
        failed_op = Some(op.clone());
        rep.count("c14.positions_fired");
        // (1) that error is returned
        match r {
            Err(e) if (!sticky && e.0 == k) || (sticky && e.0 >= k && e.0 < usize::MAX - 1) => {}
            // core::fmt::Write cannot carry the sink's error value: the application (the harness
            // handler / write closure) maps fmt::Error to this marker and the library must pass it on
            Err(e) if e.0 == usize::MAX - 1 && has_fmt_write(sc) => {
                rep.count("c14.error_mapped_by_core_fmt");
            }
            Err(e) => {
                fail(rep, "wrong-error", sc.class, format!("the call returned {:?}, not the error of the failed sink call {}", e, k));
                return;
            }
            Ok(()) => {
                fail(rep, "error-swallowed", sc.class, format!("the call returned Ok although sink call {} failed", k));
                // keep going: the session must still be usable
            }
        }
        // (3) line: as it was, as the key would have left it, or cleared
        let hist_raw = rig.history();
        if let Err((class, what)) = check_invariants(&post, hist_raw.as_ref()) {
            fail(rep, "corrupted-line", &format!("{}-{}", sc.class, class), what);
            return;
        }
        // (line, cursor) pairs: a line from one state with the cursor of another is a corrupted mixture too
        let allowed_pairs = [(pre.line.clone(), pre.cursor), (ff.posts[j].line.clone(), ff.posts[j].cursor), (vec![], 0usize)];
        let allowed = [pre.line.clone(), ff.posts[j].line.clone(), vec![]];
        if allowed.contains(&post.line) && !allowed_pairs.contains(&(post.line.clone(), post.cursor)) {
            fail(rep, "corrupted-line", &format!("{}-cursor-mixture", sc.class), format!("after the failed call the line is {:?} with the cursor at {}; allowed: as before {:?}/{}, as the key leaves it {:?}/{}, or empty", show_bytes(&post.line), post.cursor, show_bytes(&pre.line), pre.cursor, show_bytes(&ff.posts[j].line), ff.posts[j].cursor));
            return;
        }
        if !allowed.contains(&post.line) {
            fail(rep, "corrupted-line", sc.class, format!("after the failed call the line is {:?}; allowed: as before {:?}, as the key leaves it {:?}, or empty", show_bytes(&post.line), show_bytes(&pre.line), show_bytes(&ff.posts[j].line)));
            return;
        }
        let _ = log0;
        break;
    }
    if !fired {
        rep.count("c14.positions_not_reached");
        rep.inconclusive(format!("{}: sink call {} was not reached", sc.name, k - ff.c0));
        return;
    }
    // ---- the sink is repaired; later input is decoded normally
    sink.0.borrow_mut().fault = Fault::None;
    // "later input is decoded normally": decoding depends on the byte sequence only, so the other half of a CR LF / LF CR
    // pair arriving after an Enter that failed is still the second half of that pair: no key, no output, no dispatch.
    // (A terminator byte during which the sink was called at all was an Enter: a second half writes nothing.)
    if let (Some(Op::Byte(b)), true) = (&failed_op, (case + k as u64) % 2 == 0) {
        if *b == 0x0d || *b == 0x0a {
            let other = if *b == 0x0d { 0x0a } else { 0x0d };
            let pre = rig.editor();
            let log0 = rig.proc.log.len();
            let w0 = sink.0.borrow().bytes.len();
            rep.evaluations += 1;
            rep.count("c14.pair_completed_after_failed_enter");
            if let Err(e) = rig.byte(other) {
                fail(rep, "unusable-after-repair", sc.class, format!("the second half of the terminator pair after the repair returned {:?}", e));
                return;
            }
            let wrote = sink.0.borrow().bytes.len() - w0;
            if rig.proc.log.len() != log0 || wrote != 0 || rig.editor() != pre {
                fail(rep, "later-input-not-decoded", "second-half-of-terminator-pair", format!("the Enter byte {:#04x} failed; the byte {:#04x} that completes the pair was then not ignored: {} bytes written, {} dispatch(es), line {:?}", b, other, wrote, rig.proc.log.len() - log0, show_bytes(&rig.editor().line)));
                return;
            }
        }
    }
    // a random scenario may stop in the middle of an escape sequence (ESC [ seen, no final byte yet): everything up to the
    // next final byte belongs to that sequence by definition, so close it before typing (a final byte that is no arrow)
    {
        let mut rd = RefDecoder::new();
        let mut upto = sc.setup.clone();
        for op in sc.target.as_ref().unwrap() {
            upto.push(op.clone());
            if Some(op) == failed_op.as_ref() {
                break;
            }
        }
        for op in &upto {
            if let Op::Byte(b) = op {
                let _ = rd.accept(*b);
            }
        }
        if rd.in_csi() {
            rep.count("c14.open_escape_sequence_closed_first");
            if let Err(e) = rig.byte(b'~') {
                fail(rep, "unusable-after-repair", sc.class, format!("the final byte of the open escape sequence returned {:?}", e));
                return;
            }
        }
    }
    let before = rig.editor();
    let line_before = String::from_utf8(before.line.clone()).unwrap_or_default();
    let chars: Vec<char> = line_before.chars().collect();
    let cur = before.cursor.min(chars.len());
    // `zz` typed at the cursor, each character accepted only if it still fits the command buffer
    let mut model = RefEditor::new(sc.cmd);
    model.set(&line_before, cur);
    model.insert('z');
    model.insert('z');
    let _ = &chars;
    let expect_line: String = model.text();
    let log0 = rig.proc.log.len();
    for b in b"zz" {
        if let Err(e) = rig.byte(*b) {
            fail(rep, "unusable-after-repair", sc.class, format!("typing after the repair returned {:?}", e));
            return;
        }
    }
    let typed = rig.editor();
    if typed.line != expect_line.as_bytes() {
        fail(rep, "later-input-not-decoded", sc.class, format!("typing zz into {:?}/{} gave {:?}", line_before, cur, show_bytes(&typed.line)));
        return;
    }
    if let Err(e) = rig.byte(b'\r') {
        fail(rep, "unusable-after-repair", sc.class, format!("Enter after the repair returned {:?}", e));
        return;
    }
    // (4) exactly the typed text is dispatched
    let recs: Vec<Rec> = rig.proc.log[log0..].to_vec();
    let mut ok = false;
    let mut want_desc = String::new();
    for toks in ref_tokenize_set(&expect_line) {
        if toks.is_empty() {
            ok |= recs.is_empty();
            continue;
        }
        let items = ref_classify(&toks[1..]);
        let (is_help, open) = if cfg!(feature = "help") { help_shape(&toks[0], &items) } else { (false, false) };
        want_desc = format!("{:?}", toks);
        if is_help {
            ok |= recs.is_empty();
            continue;
        }
        if open && recs.is_empty() {
            ok = true;
        }
        if recs.len() == 1 && recs[0].name == toks[0].as_bytes() {
            let want: Vec<RecArg> = items
                .iter()
                .map(|i| match i {
                    Item::DoubleDash => RecArg::DoubleDash,
                    Item::Long(n) => RecArg::Long(n.as_bytes().to_vec()),
                    Item::Short(c) => RecArg::Short(*c as u32),
                    Item::Value(v) => RecArg::Value(v.as_bytes().to_vec()),
                })
                .collect();
            ok |= recs[0].args == want;
        }
    }
    rep.evaluations += 1;
    if !ok {
        fail(rep, "dispatched-text-never-typed", sc.class, format!("after the repair the line {:?} was submitted; the handler received {:?}, expected the tokens {}", expect_line, recs, want_desc));
        return;
    }
    let after = rig.editor();
    if !after.line.is_empty() {
        fail(rep, "later-input-not-decoded", sc.class, format!("line not empty after Enter: {:?}", show_bytes(&after.line)));
        return;
    }
    // (5) one more step: Up recalls the line just submitted
    if cfg!(feature = "history") && !expect_line.trim().is_empty() && expect_line.len() < sc.hist {
        if rig.byte(0x1b).is_err() || rig.byte(b'[').is_err() || rig.byte(b'A').is_err() {
            fail(rep, "unusable-after-repair", sc.class, "Up after the repair returned an error".into());
            return;
        }
        rep.evaluations += 1;
        let e = rig.editor();
        if e.line != expect_line.as_bytes() {
            fail(rep, "history-corrupted", sc.class, format!("Up after the repair recalls {:?}, submitted {:?}", show_bytes(&e.line), expect_line));
        }
    }
}

fn has_fmt_write(sc: &Scenario) -> bool {
    let in_calls = |c: &Vec<WCall>| c.iter().any(|w| w.kind.is_core_fmt());
    sc.script.iter().any(|a| in_calls(&a.writes))
        || sc.target.as_ref().map(|t| t.iter().any(|op| matches!(op, Op::Write(c) if in_calls(c)))).unwrap_or(false)
}

fn run_scenario<C: Autocomplete + Help>(sc: &Scenario, rep: &mut Report, args: &Args, case: u64) {
    // which error kind (Other, Interrupted, TimedOut, ...) goes with which failing call rotates with the scenario and the seed
    crate::sink::set_kind_shift((case as usize).wrapping_add(args.seed as usize));
    let ff = fault_free::<C>(sc);
    rep.count("c14.scenarios");
    rep.count_n("c14.positions", 2 * (ff.c1 - ff.c0) as u64);
    rep.sample(ff.c1 - ff.c0, || {
        J::obj()
            .set("scenario", J::s(&sc.name))
            .set("setup", J::s(show_ops(&sc.setup)))
            .set("target", J::s(sc.target.as_ref().map(|t| show_ops(t)).unwrap_or("build()".into())))
            .set("sink_calls_of_target", J::Int((ff.c1 - ff.c0) as i64))
    });
    for k in ff.c0..ff.c1 {
        for sticky in [false, true] {
            one_position::<C>(sc, &ff, k, sticky, rep, args, case);
        }
    }
}

pub fn run(args: &Args, rep: &mut Report) {
    let mut scs = corpus();
    // variations of buffer sizes and prompts in the thorough tier
    if args.thorough {
        let base = scs.clone();
        for (cmd, hist, prompt) in [(16usize, 16usize, 4usize), (12, 0, 1), (64, 33, 5)] {
            for s in &base {
                if s.target.is_some() {
                    let mut t = s.clone();
                    t.cmd = cmd;
                    t.hist = hist;
                    t.prompt = prompt;
                    t.name = format!("{}@cmd{}hist{}prompt{}", s.name, cmd, hist, prompt);
                    scs.push(t);
                }
            }
        }
    }
    // every scenario whose target runs a handler, again with the handler given as a plain function (blanket impl) and,
    // where expressible, through RawCommand::processor(closure): an error must survive these wrappers too
    let base = scs.clone();
    for s in &base {
        if !s.script.is_empty() {
            let mut t = s.clone();
            t.pform = 2;
            t.name = format!("{}/fn-handler", s.name);
            scs.push(t);
            if s.set == SetKind::Raw && s.script.iter().all(|a| !a.reject) {
                let mut t = s.clone();
                t.pform = 1;
                t.name = format!("{}/closure-processor", s.name);
                scs.push(t);
            }
        }
    }
    let n = scs.len() as u64;
    run_cases(args, "C14", n, rep, &mut |i, rep| {
        if !mine(args, i) {
            rep.cases -= 1;
            return;
        }
        let sc = &scs[i as usize];
        crate::with_set!(sc.set, run_scenario, sc, rep, args, i);
    });
}

/// Random scenarios: a random session prefix as setup, the next key (or application call) as target,
/// every sink call position of the target failed once and permanently. Same clauses as the corpus.
pub fn run_random(args: &Args, rep: &mut Report) {
    use crate::gen::{gen_session, Profile};
    use crate::prng::Rng;
    let total: u64 = if args.thorough { 1_000_000 } else { 48_000 };
    let n = args.scaled(total) / args.nshards.max(1);
    run_cases(args, "C14", n, rep, &mut |idx, rep| {
        let mut rng = Rng::derive(args.seed ^ 0xC14, args.shard, idx);
        let mut p = Profile::base();
        p.w_write = 4;
        p.w_set_prompt = 2;
        p.w_enter = 12;
        p.w_tab = 8;
        p.w_up = 8;
        p.w_down = 5;
        p.w_pool_line = 6;
        p.help_lines = true;
        p.chunked_sink = false;
        p.cmd_sizes = vec![4, 8, 13, 16, 32, 64];
        p.min_keys = 3;
        p.max_keys = 30;
        let (cfg, ops) = gen_session(&mut rng, &p);
        if ops.len() < 2 {
            return;
        }
        let k = rng.below(ops.len() - 1);
        // target: ops from k until (and including) the first one that makes the sink work, at most 8
        let sc_probe = Scenario { name: String::new(), class: "random", set: cfg.set, cmd: cfg.cmd, hist: cfg.hist, prompt: cfg.prompt, script: cfg.script.clone(), pform: cfg.pform, setup: ops[..k].to_vec(), target: Some(ops[k..(k + 8).min(ops.len())].to_vec()) };
        let tlen = crate::with_set!(cfg.set, first_output_len, &sc_probe);
        let tlen = match tlen {
            Some(t) => t,
            None => {
                rep.count("c14.random.no_output_target");
                return;
            }
        };
        let sc = Scenario {
            name: format!("random#{}:{}", args.shard, idx),
            class: "random",
            target: Some(ops[k..k + tlen].to_vec()),
            ..sc_probe
        };
        rep.count("c14.random.scenarios");
        crate::with_set!(sc.set, run_scenario, &sc, rep, args, idx);
    });
}

/// number of target ops needed until the sink is first touched (None: never within the target)
fn first_output_len<C: Autocomplete + Help>(sc: &Scenario) -> Option<usize> {
    let mut cmd = vec![0u8; sc.cmd].into_boxed_slice();
    let mut hist = vec![0u8; sc.hist].into_boxed_slice();
    let sink = MonSink::new();
    let mut rig: Rig<'_, C> = Rig::build(&mut cmd, &mut hist, sc.prompt, false, sink.clone(), mkproc(sc)).ok()?;
    for op in &sc.setup {
        apply(&mut rig, op).ok()?;
    }
    let c0 = sink.0.borrow().calls;
    for (j, op) in sc.target.as_ref()?.iter().enumerate() {
        apply(&mut rig, op).ok()?;
        if sink.0.borrow().calls > c0 {
            return Some(j + 1);
        }
    }
    None
}
