//! Reference models written from the property statements (not from the code).

// ---------------------------------------------------------------- UTF-8

pub fn utf8_len(c: char) -> usize {
    c.len_utf8()
}

/// Strict "maximal subpart" scan: the scalars a conforming decoder that restarts at the
/// offending byte finds in `input`.
pub fn strict_scan(input: &[u8]) -> Vec<char> {
    let mut out = Vec::new();
    let mut rest = input;
    loop {
        match core::str::from_utf8(rest) {
            Ok(s) => {
                out.extend(s.chars());
                return out;
            }
            Err(e) => {
                let (good, bad) = rest.split_at(e.valid_up_to());
                out.extend(core::str::from_utf8(good).unwrap().chars());
                let skip = e.error_len().unwrap_or(bad.len());
                rest = &bad[skip..];
                if rest.is_empty() {
                    return out;
                }
            }
        }
    }
}

pub fn is_subsequence<T: PartialEq>(small: &[T], big: &[T]) -> bool {
    let mut i = 0;
    for x in big {
        if i < small.len() && *x == small[i] {
            i += 1;
        }
    }
    i == small.len()
}

/// Classification of a byte string's ill-formedness (for evidence only)
pub fn illformed_class(b: &[u8]) -> &'static str {
    match core::str::from_utf8(b) {
        Ok(_) => "wellformed",
        Err(_) => {
            let f = b[0];
            if f >= 0xF8 {
                "lead-F8-FF"
            } else if f >= 0xF5 {
                "lead-F5-F7"
            } else if f == 0xC0 || f == 0xC1 {
                "overlong-2"
            } else if f == 0xE0 && b.len() > 1 && (0x80..0xA0).contains(&b[1]) {
                "overlong-3"
            } else if f == 0xF0 && b.len() > 1 && (0x80..0x90).contains(&b[1]) {
                "overlong-4"
            } else if f == 0xED && b.len() > 1 && (0xA0..=0xBF).contains(&b[1]) {
                "surrogate"
            } else if f == 0xF4 && b.len() > 1 && (0x90..=0xBF).contains(&b[1]) {
                "above-10FFFF"
            } else if (0x80..0xC0).contains(&f) {
                "stray-continuation"
            } else {
                "truncated-or-mixed"
            }
        }
    }
}

// ---------------------------------------------------------------- tokenizer (C07)

/// All token lists the statement of C07 allows for `line` (open points kept as alternatives).
pub fn ref_tokenize_set(line: &str) -> Vec<Vec<String>> {
    let mut out: Vec<Vec<String>> = Vec::new();
    for keep_bs_other in [false, true] {
        for keep_trailing in [false, true] {
            let t = ref_tokenize(line, keep_bs_other, keep_trailing);
            if !out.contains(&t) {
                out.push(t);
            }
        }
    }
    out
}

/// `keep_bs_other`: inside quotes, `\x` (x not quote/backslash) yields `\x` instead of `x`.
/// `keep_trailing`: a backslash that is the very last character inside an open quote is kept.
pub fn ref_tokenize(line: &str, keep_bs_other: bool, keep_trailing: bool) -> Vec<String> {
    let s: Vec<char> = line.chars().collect();
    let mut i = 0;
    let mut toks = Vec::new();
    loop {
        while i < s.len() && s[i] == ' ' {
            i += 1;
        }
        if i >= s.len() {
            break;
        }
        let mut tok = String::new();
        if s[i] == '"' {
            i += 1;
            loop {
                if i >= s.len() {
                    break;
                }
                let c = s[i];
                if c == '"' {
                    i += 1;
                    break;
                }
                if c == '\\' {
                    if i + 1 >= s.len() {
                        if keep_trailing {
                            tok.push('\\');
                        }
                        i += 1;
                        break;
                    }
                    let n = s[i + 1];
                    if n == '"' || n == '\\' {
                        tok.push(n);
                    } else {
                        if keep_bs_other {
                            tok.push('\\');
                        }
                        tok.push(n);
                    }
                    i += 2;
                } else {
                    tok.push(c);
                    i += 1;
                }
            }
        } else {
            while i < s.len() && s[i] != ' ' {
                tok.push(s[i]);
                i += 1;
            }
        }
        toks.push(tok);
    }
    toks
}

/// Quoted rendering of a token: always quoted, quote and backslash escaped.
pub fn quote_token(t: &str) -> String {
    let mut s = String::from("\"");
    for c in t.chars() {
        if c == '"' || c == '\\' {
            s.push('\\');
        }
        s.push(c);
    }
    s.push('"');
    s
}

pub fn needs_quoting(t: &str) -> bool {
    t.is_empty() || t.contains(' ') || t.starts_with('"')
}

// ---------------------------------------------------------------- classifier (C08)

#[derive(Clone, Debug, PartialEq, Eq, Hash)]
pub enum Item {
    DoubleDash,
    Long(String),
    Short(char),
    Value(String),
}

pub fn ref_classify(tokens: &[String]) -> Vec<Item> {
    let mut out = Vec::new();
    let mut values_only = false;
    for t in tokens {
        if values_only {
            out.push(Item::Value(t.clone()));
            continue;
        }
        let cs: Vec<char> = t.chars().collect();
        if cs.len() >= 2 && cs[0] == '-' {
            if cs[1] == '-' {
                if cs.len() == 2 {
                    values_only = true;
                    out.push(Item::DoubleDash);
                } else {
                    out.push(Item::Long(cs[2..].iter().collect()));
                }
            } else {
                for &c in &cs[1..] {
                    out.push(Item::Short(c));
                }
            }
        } else {
            out.push(Item::Value(t.clone()));
        }
    }
    out
}

/// Flatten items back into text pieces ("nothing lost or invented"): concatenation per token.
pub fn items_flat(items: &[Item]) -> String {
    let mut s = String::new();
    for it in items {
        match it {
            Item::DoubleDash => s.push_str("--"),
            Item::Long(n) => {
                s.push_str("--");
                s.push_str(n)
            }
            Item::Short(c) => s.push(*c),
            Item::Value(v) => s.push_str(v),
        }
        s.push('\u{1}');
    }
    s
}

/// help-shaped? (C12/C01): name == help with no argument or a value first argument;
/// or any -h / --help item before `--`.  Returns (is_help, open) where `open` marks
/// the case the statements leave open (`help` followed directly by an option).
pub fn help_shape(name: &str, items: &[Item]) -> (bool, bool) {
    if name == "help" {
        match items.first() {
            None => (true, false),
            Some(Item::Value(_)) => (true, false),
            Some(_) => (false, true),
        }
    } else {
        for it in items {
            match it {
                Item::DoubleDash => break,
                Item::Long(n) if n == "help" => return (true, false),
                Item::Short('h') => return (true, false),
                _ => {}
            }
        }
        (false, false)
    }
}

// ---------------------------------------------------------------- key decoder (C04)

#[derive(Clone, Debug, PartialEq, Eq, Hash)]
pub enum Key {
    Char(char),
    Backspace,
    Left,
    Right,
    Up,
    Down,
    Tab,
    Enter,
}

/// Byte-driven reference decoder written from the statement of C04.
#[derive(Clone, Debug, Default)]
pub struct RefDecoder {
    /// a byte arrived whose treatment the statement of C04 leaves open (DEL, ill-formed UTF-8, a control byte inside a
    /// multi-byte character, a byte outside 0x20..=0x7E inside a CSI sequence): from here on this decoder is one of
    /// several acceptable ones
    pub open_point: bool,
    in_csi: bool,
    esc_pending: bool,
    /// last byte was a terminator that produced an Enter and may still pair up
    pair_open: Option<u8>,
    utf: Vec<u8>,
}

impl RefDecoder {
    pub fn new() -> Self {
        Self::default()
    }
    /// inside an escape sequence that has not seen its final byte yet
    pub fn in_csi(&self) -> bool {
        self.in_csi
    }
    pub fn state_class(&self) -> u64 {
        (self.in_csi as u64)
            | (self.esc_pending as u64) << 1
            | (match self.pair_open {
                None => 0,
                Some(0x0d) => 1,
                _ => 2,
            }) << 2
            | (self.utf.len() as u64) << 4
    }
    pub fn accept(&mut self, b: u8) -> Option<Key> {
        if b == 0x7f || (self.in_csi && !(0x20..=0x7e).contains(&b)) || (!self.utf.is_empty() && !(0x80..=0xbf).contains(&b)) || (self.utf.is_empty() && !self.in_csi && (0x80..=0xc1).contains(&b)) || b >= 0xf5 {
            self.open_point = true;
        }
        if self.in_csi {
            self.pair_open = None;
            if (0x40..=0x7e).contains(&b) {
                self.in_csi = false;
                return match b {
                    b'A' => Some(Key::Up),
                    b'B' => Some(Key::Down),
                    b'C' => Some(Key::Right),
                    b'D' => Some(Key::Left),
                    _ => None,
                };
            }
            return None;
        }
        if self.esc_pending && b == b'[' {
            self.esc_pending = false;
            self.in_csi = true;
            self.pair_open = None;
            return None;
        }
        self.esc_pending = false;
        if b == 0x0d || b == 0x0a {
            self.utf.clear();
            if let Some(p) = self.pair_open {
                if p != b {
                    // second half of an adjacent CR LF / LF CR pair
                    self.pair_open = None;
                    return None;
                }
            }
            self.pair_open = Some(b);
            return Some(Key::Enter);
        }
        self.pair_open = None;
        match b {
            0x1b => {
                self.esc_pending = true;
                None
            }
            0x08 => Some(Key::Backspace),
            0x09 => Some(Key::Tab),
            b if b < 0x20 => None,
            b => {
                // strict assembler with restart at the offending byte
                self.utf.push(b);
                loop {
                    match core::str::from_utf8(&self.utf) {
                        Ok(s) => {
                            let c = s.chars().next().unwrap();
                            self.utf.clear();
                            return Some(Key::Char(c));
                        }
                        Err(e) => {
                            if e.error_len().is_none() {
                                return None; // incomplete, wait
                            }
                            self.open_point = true;
                            if self.utf.len() == 1 {
                                self.utf.clear();
                                return None;
                            }
                            // drop the ill-formed subpart, retry with the last byte alone
                            let last = *self.utf.last().unwrap();
                            self.utf.clear();
                            self.utf.push(last);
                        }
                    }
                }
            }
        }
    }
}

// ---------------------------------------------------------------- editor (C05)

#[derive(Clone, Debug, PartialEq, Eq)]
pub struct RefEditor {
    pub line: Vec<char>,
    pub cursor: usize,
    pub cap: usize,
}

impl RefEditor {
    pub fn new(cap: usize) -> Self {
        RefEditor { line: Vec::new(), cursor: 0, cap }
    }
    pub fn byte_len(&self) -> usize {
        self.line.iter().map(|c| c.len_utf8()).sum()
    }
    pub fn text(&self) -> String {
        self.line.iter().collect()
    }
    /// returns true when accepted
    pub fn insert(&mut self, c: char) -> bool {
        if self.byte_len() + c.len_utf8() <= self.cap {
            self.line.insert(self.cursor, c);
            self.cursor += 1;
            true
        } else {
            false
        }
    }
    pub fn backspace(&mut self) -> bool {
        if self.cursor > 0 {
            self.cursor -= 1;
            self.line.remove(self.cursor);
            true
        } else {
            false
        }
    }
    pub fn left(&mut self) -> bool {
        if self.cursor > 0 {
            self.cursor -= 1;
            true
        } else {
            false
        }
    }
    pub fn right(&mut self) -> bool {
        if self.cursor < self.line.len() {
            self.cursor += 1;
            true
        } else {
            false
        }
    }
    pub fn clear(&mut self) {
        self.line.clear();
        self.cursor = 0;
    }
    pub fn set(&mut self, text: &str, cursor: usize) {
        self.line = text.chars().collect();
        self.cursor = cursor.min(self.line.len());
    }
}

// ---------------------------------------------------------------- history (C10)

#[derive(Clone, Debug, PartialEq, Eq, Hash)]
pub struct HistState {
    /// oldest -> newest
    pub entries: Vec<Vec<u8>>,
    pub nav: Option<usize>,
}

#[derive(Clone, Debug, Default)]
pub struct SubmitInfo {
    pub recorded: bool,
    pub rejected_empty: bool,
    pub rejected_long: bool,
    pub dedup_newest: bool,
    pub dedup_older: bool,
    pub evicted: usize,
    pub whole_evicted: bool,
}

/// deterministic core: submit a line into an entry list with byte budget `b`
pub fn hist_submit(entries: &mut Vec<Vec<u8>>, line: &[u8], b: usize) -> SubmitInfo {
    let mut info = SubmitInfo::default();
    if line.is_empty() {
        info.rejected_empty = true;
        return info;
    }
    if line.len() + 1 > b {
        info.rejected_long = true;
        return info;
    }
    if let Some(pos) = entries.iter().position(|e| e == line) {
        if pos + 1 == entries.len() {
            info.dedup_newest = true;
        } else {
            info.dedup_older = true;
        }
        entries.remove(pos);
    }
    let need = line.len() + 1;
    let before = entries.len();
    while entries.iter().map(|e| e.len() + 1).sum::<usize>() + need > b {
        entries.remove(0);
        info.evicted += 1;
    }
    if before > 0 && info.evicted == before {
        info.whole_evicted = true;
    }
    entries.push(line.to_vec());
    info.recorded = true;
    info
}

/// What an Up/Down may show: Some(line) = line replaced by this, None = nothing changes
#[derive(Clone, Debug, PartialEq, Eq)]
pub enum Shown {
    Unchanged,
    Line(Vec<u8>),
}

/// Set-valued history model: every state the statement of C10 allows.
#[derive(Clone, Debug)]
pub struct RefHistory {
    pub budget: usize,
    pub states: Vec<HistState>,
    pub overflow: bool,
}

const MAX_STATES: usize = 16;

impl RefHistory {
    pub fn new(budget: usize) -> Self {
        RefHistory {
            budget,
            states: vec![HistState { entries: Vec::new(), nav: None }],
            overflow: false,
        }
    }
    fn norm(&mut self) {
        let mut out: Vec<HistState> = Vec::new();
        for s in self.states.drain(..) {
            if !out.contains(&s) {
                out.push(s);
            }
        }
        if out.len() > MAX_STATES {
            self.overflow = true;
            out.truncate(MAX_STATES);
        }
        self.states = out;
    }
    /// an edit (insert/backspace) or an unrecorded Enter: navigation position kept or reset (open)
    pub fn touched(&mut self) {
        let mut extra = Vec::new();
        for s in &self.states {
            if s.nav.is_some() {
                extra.push(HistState { entries: s.entries.clone(), nav: None });
            }
        }
        self.states.extend(extra);
        self.norm();
    }
    /// Enter with `line`; returns info of the first state (for evidence)
    pub fn submit(&mut self, line: &[u8]) -> SubmitInfo {
        let ws_only = !line.is_empty() && line.iter().all(|&b| b == b' ');
        let mut out = Vec::new();
        let mut first = None;
        for s in &self.states {
            let mut e = s.entries.clone();
            let info = hist_submit(&mut e, line, self.budget);
            if info.recorded {
                out.push(HistState { entries: e, nav: None });
                if ws_only {
                    // whitespace-only lines: recorded or not (open)
                    out.push(HistState { entries: s.entries.clone(), nav: s.nav });
                    out.push(HistState { entries: s.entries.clone(), nav: None });
                }
            } else {
                out.push(HistState { entries: s.entries.clone(), nav: s.nav });
                out.push(HistState { entries: s.entries.clone(), nav: None });
            }
            if first.is_none() {
                first = Some(info);
            }
        }
        self.states = out;
        self.norm();
        first.unwrap_or_default()
    }
    fn step(s: &HistState, up: bool) -> Vec<(Shown, HistState)> {
        let n = s.entries.len();
        if up {
            match s.nav {
                None if n > 0 => vec![(
                    Shown::Line(s.entries[n - 1].clone()),
                    HistState { entries: s.entries.clone(), nav: Some(n - 1) },
                )],
                Some(i) if i > 0 => vec![(
                    Shown::Line(s.entries[i - 1].clone()),
                    HistState { entries: s.entries.clone(), nav: Some(i - 1) },
                )],
                _ => vec![(Shown::Unchanged, s.clone())],
            }
        } else {
            match s.nav {
                Some(i) if i + 1 < n => vec![(
                    Shown::Line(s.entries[i + 1].clone()),
                    HistState { entries: s.entries.clone(), nav: Some(i + 1) },
                )],
                Some(_) => vec![(
                    Shown::Line(Vec::new()),
                    HistState { entries: s.entries.clone(), nav: None },
                )],
                // Down while not navigating: line unchanged or emptied (open)
                None => vec![
                    (Shown::Unchanged, s.clone()),
                    (Shown::Line(Vec::new()), s.clone()),
                ],
            }
        }
    }
    /// Up/Down observed: `before` and `after` are the edited line around the key.
    /// Returns false when no allowed state explains the observation.
    pub fn navigate(&mut self, up: bool, before: &[u8], after: &[u8]) -> bool {
        let mut out = Vec::new();
        for s in &self.states {
            for (shown, ns) in Self::step(s, up) {
                let ok = match &shown {
                    Shown::Unchanged => before == after,
                    Shown::Line(l) => l.as_slice() == after,
                };
                if ok {
                    out.push(ns);
                }
            }
        }
        if out.is_empty() {
            return false;
        }
        self.states = out;
        self.norm();
        true
    }
    /// Component-level observation: `next_older` / `next_newer` returned `ret`.
    /// Line(x) <-> Some(x) for non-empty x; "nothing changes" and "past the newest" <-> None.
    pub fn navigate_ret(&mut self, up: bool, ret: Option<&[u8]>) -> bool {
        let mut out = Vec::new();
        for s in &self.states {
            for (shown, ns) in Self::step(s, up) {
                let ok = match (&shown, ret) {
                    (Shown::Unchanged, None) => true,
                    (Shown::Line(l), None) => l.is_empty(),
                    (Shown::Line(l), Some(r)) => !l.is_empty() && l.as_slice() == r,
                    (Shown::Unchanged, Some(_)) => false,
                };
                if ok {
                    out.push(ns);
                }
            }
        }
        if out.is_empty() {
            return false;
        }
        self.states = out;
        self.norm();
        true
    }
    /// what the allowed states would show (for diagnostics)
    pub fn expected(&self, up: bool) -> Vec<Shown> {
        let mut v = Vec::new();
        for s in &self.states {
            for (shown, _) in Self::step(s, up) {
                if !v.contains(&shown) {
                    v.push(shown);
                }
            }
        }
        v
    }
    /// prune states by the entries actually stored (hook); false when none matches
    pub fn observe_entries(&mut self, entries: &[Vec<u8>]) -> bool {
        let out: Vec<HistState> = self
            .states
            .iter()
            .filter(|s| s.entries.as_slice() == entries)
            .cloned()
            .collect();
        if out.is_empty() {
            return false;
        }
        self.states = out;
        true
    }
}

// ---------------------------------------------------------------- completion (C11)

pub fn common_prefix_chars(a: &str, b: &str) -> String {
    a.chars().zip(b.chars()).take_while(|(x, y)| x == y).map(|(x, _)| x).collect()
}

#[derive(Clone, Debug, PartialEq, Eq)]
pub enum FitClass {
    NotApplicable,
    NoMatch,
    Full,
    FullNoBlankRoom,
    ContDoesNotFit,
}

/// Every line the statement of C11 allows after Tab. `names` = names of all visible groups
/// plus `help` (or both variants, see caller). Returns (allowed lines, fit class, #matches).
pub fn ref_complete(line: &str, cursor_inside: bool, names: &[String], cap: usize) -> (Vec<String>, FitClass, usize) {
    let unchanged = line.to_string();
    let t = line.trim_start_matches(' ');
    if t.is_empty() {
        return (vec![unchanged], FitClass::NotApplicable, 0);
    }
    // argument started?
    let tb: Vec<char> = t.chars().collect();
    for i in 0..tb.len().saturating_sub(1) {
        if tb[i] == ' ' && tb[i + 1] != ' ' {
            return (vec![unchanged], FitClass::NotApplicable, 0);
        }
    }
    let has_trailing = t.ends_with(' ');
    let base = line.trim_end_matches(' ').to_string();
    let word = t.trim_end_matches(' ');
    let mut allowed = Vec::new();
    if has_trailing {
        allowed.push(unchanged.clone());
    }
    let _ = cursor_inside;
    let mut matches: Vec<&String> = Vec::new();
    for n in names {
        if n.starts_with(word) && !matches.contains(&n) {
            matches.push(n);
        }
    }
    if matches.is_empty() {
        if !allowed.contains(&unchanged) {
            allowed.push(unchanged);
        }
        return (allowed, FitClass::NoMatch, 0);
    }
    let mut cont: String = matches[0][word.len()..].to_string();
    for m in &matches[1..] {
        cont = common_prefix_chars(&cont, &m[word.len()..]);
    }
    let unique = matches.len() == 1;
    let full = format!("{}{}", base, cont);
    let class;
    if full.len() <= cap {
        if unique && full.len() + 1 <= cap {
            allowed.push(format!("{} ", full));
            class = FitClass::Full;
        } else {
            if has_trailing && cont.is_empty() && !unique {
                // nothing to add: the line may also simply stay as it is (already allowed)
            }
            allowed.push(full);
            class = if unique { FitClass::FullNoBlankRoom } else { FitClass::Full };
        }
    } else {
        // continuation does not fit: unchanged, or any scalar prefix of it that fits, no blank
        if !allowed.contains(&unchanged) {
            allowed.push(unchanged.clone());
        }
        let mut acc = base.clone();
        if !allowed.contains(&acc) {
            allowed.push(acc.clone());
        }
        for c in cont.chars() {
            acc.push(c);
            if acc.len() <= cap {
                allowed.push(acc.clone());
            } else {
                break;
            }
        }
        class = FitClass::ContDoesNotFit;
    }
    (allowed, class, matches.len())
}
