//! Seeded generators for sessions (configuration + op list).
use crate::prng::Rng;
use crate::rig::{HAction, WCall, WKind, PROMPTS, SMALL_PROMPTS};
use crate::session::{Op, SessionCfg};
use crate::sets::SetKind;

pub const CMD_SIZES: [usize; 12] = [0, 1, 2, 3, 4, 5, 7, 8, 13, 16, 32, 64];
pub const HIST_SIZES: [usize; 10] = [0, 1, 2, 3, 5, 8, 13, 16, 33, 64];
/// the ten-symbol alphabet of DESIGN §6 plus the letters of `help`
pub const SIGMA: [&str; 13] = ["a", "b", "h", "-", " ", "\"", "\\", "é", "€", "𐍈", "e", "l", "p"];
pub const SIGMA_W: [usize; 13] = [14, 12, 8, 8, 12, 5, 3, 8, 7, 7, 3, 3, 3];
pub const CSI_LOOKALIKES: [&str; 9] = ["[", "[", "A", "D", "1", ";", "~", "O", "]"];
pub const POOL: [&str; 8] = ["a", "b", "ab", "é", "abc", "a b", "€ 𐍈", "abba -h"];
pub const HELP_POOL: [&str; 14] = ["help", "help ab", "ab x --help", "b -h", "help ha take", "help nope", "ba 1 -h", "help -x", "ab -vh", "b -hv x", "ba -é -xh", "ab -- -h", "b x -- --help", "ba -- -vh --help"];

#[derive(Clone, Debug)]
pub struct Profile {
    pub w_char: usize,
    pub w_word: usize,
    pub w_pool_line: usize,
    pub w_backspace: usize,
    pub w_left: usize,
    pub w_right: usize,
    pub w_up: usize,
    pub w_down: usize,
    pub w_tab: usize,
    pub w_enter: usize,
    pub w_ignored: usize,
    pub w_write: usize,
    pub w_set_prompt: usize,
    /// multi-step motifs that a soup of independent keys rarely assembles (completion with the cursor inside and blanks
    /// behind it, recall of a multi-byte line followed by edits, a line filled to the last byte and then edited, ...)
    pub w_motif: usize,
    pub min_keys: usize,
    pub max_keys: usize,
    pub sets: Vec<SetKind>,
    pub cmd_sizes: Vec<usize>,
    pub hist_sizes: Vec<usize>,
    /// handler behaviour: 0 silent only; 1 may write; 2 may write and change prompt
    pub handler_level: usize,
    pub inject_between_bytes: bool,
    pub chunked_sink: bool,
    pub fancy_csi: bool,
    pub end_probe: bool,
    pub help_lines: bool,
    /// see RAW_TEXT
    pub raw_text: bool,
}

impl Profile {
    pub fn base() -> Self {
        Profile {
            w_char: 50,
            w_word: 4,
            w_pool_line: 3,
            w_backspace: 8,
            w_left: 8,
            w_right: 6,
            w_up: 5,
            w_down: 4,
            w_tab: 5,
            w_enter: 10,
            w_ignored: 1,
            w_write: 0,
            w_set_prompt: 0,
            w_motif: 3,
            min_keys: 10,
            max_keys: 80,
            sets: vec![SetKind::Raw, SetKind::FixA, SetKind::FixG, SetKind::FixU],
            cmd_sizes: CMD_SIZES.to_vec(),
            hist_sizes: HIST_SIZES.to_vec(),
            handler_level: 2,
            inject_between_bytes: false,
            chunked_sink: true,
            fancy_csi: true,
            end_probe: false,
            help_lines: false,
            raw_text: false,
        }
    }
}

thread_local! {
    /// application texts may hold any character at all (controls, ESC, NUL, DEL, other line separators): only for workloads whose
    /// clauses do not need the terminal emulator to understand the output (C13's byte-exact framing)
    static RAW_TEXT: std::cell::Cell<bool> = const { std::cell::Cell::new(false) };
}

pub fn gen_text(rng: &mut Rng) -> String {
    const T: [&str; 10] = ["x", "y", " ", "é", "€", "𐍈", "\n", "\r\n", "-", "\r"];
    const W: [usize; 10] = [10, 6, 4, 3, 3, 2, 6, 2, 2, 1];
    const RAW: [&str; 16] = ["\t", "\x1b", "\x1b[", "\0", "\x7f", "\x0c", "\x08", "\x0b", "\u{85}", "\u{2028}", "\n\r", "\u{9b}", "\x07", "\u{feff}", "\x01", "\u{a0}"];
    let raw = RAW_TEXT.with(|c| c.get());
    let n = if rng.chance(12) { 0 } else { rng.range(1, 8) };
    let mut s = String::new();
    for _ in 0..n {
        if raw && rng.chance(12) {
            if rng.chance(30) {
                s.push(random_scalar(rng));
            } else {
                s.push_str(RAW[rng.below(RAW.len())]);
            }
        } else {
            s.push_str(T[rng.weighted(&W)]);
        }
    }
    s
}

pub fn gen_calls(rng: &mut Rng) -> Vec<WCall> {
    let n = [0usize, 1, 1, 1, 2, 2, 3, 4][rng.below(8)];
    (0..n)
        .map(|_| WCall {
            kind: *rng.pick(&[WKind::Str, WKind::Str, WKind::Str, WKind::Ln, WKind::Ln, WKind::Ufmt, WKind::Fmt, WKind::Fmt2, WKind::UfmtCh, WKind::FmtCh, WKind::FmtPad, WKind::FmtDbg, WKind::Ch, WKind::ListElem, WKind::Title]),
            text: gen_text(rng),
        })
        .collect()
}

pub fn gen_script(rng: &mut Rng, level: usize) -> Vec<HAction> {
    if level == 0 || rng.chance(20) {
        return vec![];
    }
    let n = rng.range(1, 3);
    (0..n)
        .map(|_| HAction {
            writes: if rng.chance(75) { gen_calls(rng) } else { vec![] },
            set_prompt: if level >= 2 && rng.chance(30) { Some(rng.below(SMALL_PROMPTS)) } else { None },
            fail: false,
            reject: rng.chance(12),
        })
        .collect()
}


/// how the application hands over its handler (RecProc::pform): mostly a struct; a function through the blanket impl for any
/// set; `RawCommand::processor(closure)` where the script never returns anything but sink errors and nothing is parsed
pub fn gen_pform(rng: &mut Rng, set: SetKind, script: &[HAction]) -> u8 {
    let form = match rng.below(10) {
        0 | 1 => 2,
        2 | 3 if set == SetKind::Raw && script.iter().all(|a| !a.reject) => 1,
        _ => 0,
    };
    // 8 %: another command set with every line (bit 4; the closure form cannot express parse errors, so not with it)
    if form != 1 && rng.chance(8) {
        form | 0x10
    } else {
        form
    }
}

/// a scalar value >= U+0080 of a uniformly chosen encoded length
pub fn random_scalar(rng: &mut Rng) -> char {
    loop {
        let u = match rng.below(3) {
            0 => rng.range(0x80, 0x7ff),
            1 => rng.range(0x800, 0xffff),
            _ => rng.range(0x10000, 0x10ffff),
        } as u32;
        if let Some(c) = char::from_u32(u) {
            return c;
        }
    }
}

fn csi(rng: &mut Rng, fin: u8, fancy: bool) -> Vec<u8> {
    let mut v = vec![0x1b, b'['];
    if fancy && rng.chance(15) {
        let n = rng.range(1, 5);
        for _ in 0..n {
            v.push(*rng.pick(b"0123456789;:<=>? !\"#$%&'()*+,-./"));
        }
    }
    v.push(fin);
    v
}

pub fn enter_bytes(rng: &mut Rng) -> Vec<u8> {
    match rng.below(6) {
        0 | 1 => vec![b'\r'],
        2 => vec![b'\n'],
        3 | 4 => vec![b'\r', b'\n'],
        _ => vec![b'\n', b'\r'],
    }
}

const LEFT: [u8; 3] = [0x1b, b'[', b'D'];
const RIGHT: [u8; 3] = [0x1b, b'[', b'C'];
const UP: [u8; 3] = [0x1b, b'[', b'A'];
const DOWN: [u8; 3] = [0x1b, b'[', b'B'];

/// a few cursor-relative edits: what makes a silently wrong cursor / length visible
fn follow_up(rng: &mut Rng, out: &mut Vec<Vec<u8>>) {
    for _ in 0..rng.range(0, 4) {
        match rng.below(6) {
            0 | 1 => out.push(vec![0x08]),
            2 => out.push(LEFT.to_vec()),
            3 => out.push(RIGHT.to_vec()),
            _ => out.push(SIGMA[rng.weighted(&SIGMA_W)].as_bytes().to_vec()),
        }
    }
}

/// One multi-step motif as a list of keys (each key a byte string).
pub fn gen_motif(rng: &mut Rng, p: &Profile, dict: &[String], cmd: usize) -> Vec<Vec<u8>> {
    let mut out: Vec<Vec<u8>> = vec![];
    let word = |rng: &mut Rng| -> String {
        let w = rng.pick(dict).clone();
        let n = w.chars().count();
        let k = if rng.chance(25) { n } else { rng.range(1, n) };
        w.chars().take(k).collect()
    };
    let kind = rng.below(if p.w_tab == 0 { 3 } else { 6 });
    match kind {
        // recall a (multi-byte) line, then edit it relative to the cursor, submit
        0 | 1 => {
            if p.w_up == 0 {
                return out;
            }
            for _ in 0..rng.range(1, 3) {
                let l = *rng.pick(&["é", "éé", "a€b", "𐍈 é", "ab", "ю-é €", "abc"]);
                out.push(l.as_bytes().to_vec());
                out.push(enter_bytes(rng));
            }
            if rng.chance(25) {
                // the very line the recall is going to show is typed again, cursor moved inside
                let last = *rng.pick(&["é", "éé", "a€b", "ab", "abc"]);
                out.push(last.as_bytes().to_vec());
                out.push(enter_bytes(rng));
                out.push(last.as_bytes().to_vec());
                for _ in 0..rng.range(1, 2) {
                    out.push(LEFT.to_vec());
                }
            } else if rng.chance(60) {
                // something else is on the line when the recall happens
                for _ in 0..rng.range(1, 5) {
                    out.push(SIGMA[rng.weighted(&SIGMA_W)].as_bytes().to_vec());
                }
            }
            for _ in 0..rng.range(1, 3) {
                out.push(if rng.chance(75) { UP.to_vec() } else { DOWN.to_vec() });
            }
            follow_up(rng, &mut out);
            if rng.chance(70) {
                out.push(enter_bytes(rng));
            }
        }
        // fill the line to the last byte, then edit inside it
        2 => {
            if cmd == 0 || cmd > 24 {
                return out;
            }
            for _ in 0..cmd + 1 {
                out.push(SIGMA[rng.weighted(&SIGMA_W)].as_bytes().to_vec());
            }
            for _ in 0..rng.range(0, 3) {
                out.push(LEFT.to_vec());
            }
            follow_up(rng, &mut out);
            if p.w_tab > 0 && rng.chance(30) {
                out.push(vec![0x09]);
            }
            if rng.chance(50) {
                out.push(enter_bytes(rng));
            }
        }
        // completion: [blanks] word [argument] [blanks], cursor moved inside, Tab (twice), cursor-relative edits, submit
        _ => {
            out.push(vec![0x0d]); // start from an empty line
            for _ in 0..[0usize, 0, 0, 1, 2][rng.below(5)] {
                out.push(b" ".to_vec());
            }
            let w = if rng.chance(8) { String::new() } else { word(rng) };
            let mut chars = w.chars().count();
            out.push(w.into_bytes());
            if rng.chance(30) {
                // an argument has been started
                out.push(b" ".to_vec());
                let a = *rng.pick(&["x", "led", "-v", "é", "h"]);
                chars += 1 + a.chars().count();
                out.push(a.as_bytes().to_vec());
            }
            let blanks = [0usize, 1, 1, 2, 3][rng.below(5)];
            for _ in 0..blanks {
                out.push(b" ".to_vec());
            }
            let back = if rng.chance(30) { 0 } else { rng.range(1, chars + blanks + 1) };
            for _ in 0..back {
                out.push(LEFT.to_vec());
            }
            out.push(vec![0x09]);
            if rng.chance(25) {
                out.push(vec![0x09]);
            }
            follow_up(rng, &mut out);
            if rng.chance(75) {
                out.push(enter_bytes(rng));
            }
        }
    }
    out.retain(|k| !k.is_empty());
    out
}

/// Generate one session. Keys are rendered to bytes; application calls are injected
/// between keys, or (profile.inject_between_bytes) between any two bytes.
pub fn gen_session(rng: &mut Rng, p: &Profile) -> (SessionCfg, Vec<Op>) {
    RAW_TEXT.with(|c| c.set(p.raw_text));
    let set = *rng.pick(&p.sets);
    // boundary grid most of the time, any size 0..=48 otherwise (a bug may need a size off the grid)
    let off_grid = p.cmd_sizes.len() > 6 && rng.chance(35);
    let cfg = SessionCfg {
        cmd: if off_grid { rng.below(49) } else { *rng.pick(&p.cmd_sizes) },
        hist: if off_grid || (p.hist_sizes.len() > 6 && rng.chance(25)) { rng.below(49) } else { *rng.pick(&p.hist_sizes) },
        prompt: rng.below(SMALL_PROMPTS),
        set,
        use_new: rng.chance(5),
        chunk: if p.chunked_sink && rng.chance(15) { rng.range(1, 3) } else { 0 },
        script: gen_script(rng, p.handler_level),
        pform: 0,
    };
    let cfg = SessionCfg { pform: gen_pform(rng, cfg.set, &cfg.script), ..cfg };
    let mut dict: Vec<String> = set.names();
    dict.push("help".into());
    let weights = [
        p.w_char, p.w_word, p.w_pool_line, p.w_backspace, p.w_left, p.w_right, p.w_up, p.w_down, p.w_tab, p.w_enter, p.w_ignored,
        p.w_write, p.w_set_prompt, p.w_motif,
    ];
    // mostly short histories (many of them beat one enormous one); now and then a long one, for what only shows after a
    // buffer has filled up and turned over several times
    let nkeys = if rng.chance(1) { rng.range(p.max_keys * 5, p.max_keys * 25) } else { rng.range(p.min_keys, p.max_keys) };
    let mut ops: Vec<Op> = Vec::new();
    let push_bytes = |ops: &mut Vec<Op>, rng: &mut Rng, bytes: &[u8]| {
        for (j, &b) in bytes.iter().enumerate() {
            if j > 0 && p.inject_between_bytes && (p.w_write + p.w_set_prompt) > 0 && rng.chance(6) {
                if rng.below(p.w_write + p.w_set_prompt) < p.w_write {
                    let c = gen_calls(rng);
                    ops.push(Op::Write(c));
                } else {
                    ops.push(Op::SetPrompt(rng.below(SMALL_PROMPTS)));
                }
            }
            ops.push(Op::Byte(b));
        }
    };
    for _ in 0..nkeys {
        match rng.weighted(&weights) {
            0 => {
                // now and then a character that also occurs inside escape sequences
                if rng.chance(5) {
                    // any scalar value at all (every lead and continuation octet value turns up): a character must not be
                    // special because of the octets it is made of
                    let c = random_scalar(rng);
                    let mut b = [0u8; 4];
                    let enc = c.encode_utf8(&mut b).as_bytes().to_vec();
                    push_bytes(&mut ops, rng, &enc);
                    continue;
                }
                let s = if rng.chance(7) { *rng.pick(&CSI_LOOKALIKES) } else { SIGMA[rng.weighted(&SIGMA_W)] };
                push_bytes(&mut ops, rng, s.as_bytes());
            }
            1 => {
                // a prefix of a known name (so that Tab has something to do)
                let w = rng.pick(&dict).clone();
                let n = w.chars().count();
                let k = rng.range(1, n);
                let pre: String = w.chars().take(k).collect();
                push_bytes(&mut ops, rng, pre.as_bytes());
            }
            2 => {
                let l = if p.help_lines && rng.chance(50) { *rng.pick(&HELP_POOL) } else { *rng.pick(&POOL) };
                push_bytes(&mut ops, rng, l.as_bytes());
                if rng.chance(70) {
                    let e = enter_bytes(rng);
                    push_bytes(&mut ops, rng, &e);
                }
            }
            3 => push_bytes(&mut ops, rng, &[0x08]),
            4 => {
                let b = csi(rng, b'D', p.fancy_csi);
                push_bytes(&mut ops, rng, &b)
            }
            5 => {
                let b = csi(rng, b'C', p.fancy_csi);
                push_bytes(&mut ops, rng, &b)
            }
            6 => {
                let b = csi(rng, b'A', p.fancy_csi);
                push_bytes(&mut ops, rng, &b)
            }
            7 => {
                let b = csi(rng, b'B', p.fancy_csi);
                push_bytes(&mut ops, rng, &b)
            }
            8 => push_bytes(&mut ops, rng, &[0x09]),
            9 => {
                let e = enter_bytes(rng);
                push_bytes(&mut ops, rng, &e)
            }
            10 => {
                // ignored input: other C0 controls, lone ESC followed by a non-[ byte, CSI with another final
                match rng.below(4) {
                    0 => {
                        let c = *rng.pick(&[0x00u8, 0x01, 0x07, 0x0b, 0x0c, 0x1a, 0x1f]);
                        push_bytes(&mut ops, rng, &[c])
                    }
                    1 => push_bytes(&mut ops, rng, &[0x1b, 0x01]),
                    2 => {
                        let f = *rng.pick(b"~HFZmPQ@");
                        let b = csi(rng, f, true);
                        push_bytes(&mut ops, rng, &b)
                    }
                    _ => push_bytes(&mut ops, rng, &[0x1b]),
                }
            }
            11 => {
                let c = gen_calls(rng);
                ops.push(Op::Write(c));
            }
            12 => ops.push(Op::SetPrompt(rng.below(SMALL_PROMPTS))),
            _ => {
                let keys = gen_motif(rng, p, &dict, cfg.cmd);
                for k in keys {
                    push_bytes(&mut ops, rng, &k);
                }
            }
        }
    }
    if p.end_probe {
        // walk to "not navigating", then all the way up, then all the way down again
        let n = (cfg.hist / 2 + 2).min(36);
        for _ in 0..n {
            ops.extend([0x1b, b'[', b'B'].map(Op::Byte));
        }
        for _ in 0..n {
            ops.extend([0x1b, b'[', b'A'].map(Op::Byte));
        }
        for _ in 0..n {
            ops.extend([0x1b, b'[', b'B'].map(Op::Byte));
        }
    }
    (cfg, ops)
}

// ------------------------------------------------------------------ large buffers

/// sizes around 255 / 256 / 511 / 512 / 1023 / 1024: lengths, offsets, counts and columns that no longer fit one octet
pub const LARGE_SIZES: [usize; 16] = [200, 254, 255, 256, 257, 258, 300, 510, 511, 512, 513, 640, 767, 1023, 1024, 1100];

fn base36(mut i: usize) -> String {
    const D: &[u8] = b"abcdefgijkmnoqrstuvwxyz0123456789"; // no h, l, p: never spells `help`
    let mut v = vec![];
    loop {
        v.push(D[i % D.len()]);
        i /= D.len();
        if i == 0 {
            break;
        }
    }
    v.reverse();
    String::from_utf8(v).unwrap()
}

/// A session in buffers of 200..1100 bytes made of *bursts*: hundreds of characters, of cursor moves, of deletions, of
/// tokens, of submitted distinct lines, of recall steps -- so that line lengths, cursor positions, token counts, entry
/// counts, entry offsets and terminal columns all cross 255 / 256 (and 511 / 512, 1023 / 1024).
pub fn gen_large_session(rng: &mut Rng, p: &Profile) -> (SessionCfg, Vec<Op>) {
    RAW_TEXT.with(|c| c.set(p.raw_text));
    let set = *rng.pick(&p.sets);
    let size = |rng: &mut Rng| if rng.chance(30) { rng.range(200, 1100) } else { *rng.pick(&LARGE_SIZES) };
    let cfg = SessionCfg {
        cmd: size(rng),
        hist: if rng.chance(10) { *rng.pick(&HIST_SIZES) } else { size(rng) },
        prompt: if rng.chance(35) { rng.range(SMALL_PROMPTS, PROMPTS.len() - 1) } else { rng.below(SMALL_PROMPTS) },
        set,
        use_new: rng.chance(5),
        chunk: if p.chunked_sink && rng.chance(10) { rng.range(1, 3) } else { 0 },
        script: gen_script(rng, p.handler_level),
        pform: 0,
    };
    let cfg = SessionCfg { pform: gen_pform(rng, cfg.set, &cfg.script), ..cfg };
    // the handler, too, may switch to one of the long prompts
    let mut cfg = cfg;
    for a in cfg.script.iter_mut() {
        if a.set_prompt.is_some() && rng.chance(40) {
            a.set_prompt = Some(rng.range(SMALL_PROMPTS, PROMPTS.len() - 1));
        }
    }
    let any_prompt = |rng: &mut Rng| if rng.chance(40) { rng.range(SMALL_PROMPTS, PROMPTS.len() - 1) } else { rng.below(SMALL_PROMPTS) };
    let mut ops: Vec<Op> = Vec::new();
    let bytes = |ops: &mut Vec<Op>, b: &[u8]| ops.extend(b.iter().map(|&x| Op::Byte(x)));
    let burst_len = |rng: &mut Rng| match rng.below(4) {
        0 => rng.range(1, 8),
        1 => rng.range(240, 270),
        2 => rng.range(500, 530),
        _ => rng.range(20, 450),
    };
    let mut next_line = rng.below(1000);
    let nsteps = rng.range(5, 16);
    for _ in 0..nsteps {
        if ops.len() > 9000 {
            break;
        }
        match rng.weighted(&[p.w_char, p.w_word * 3, p.w_left, p.w_right, p.w_backspace, p.w_enter, p.w_up, p.w_down, p.w_tab, p.w_write, p.w_set_prompt, p.w_pool_line]) {
            0 => {
                // a burst of one character (every encoded length), or of a short mixed pattern
                let k = burst_len(rng);
                if rng.chance(50) {
                    let s = if rng.chance(15) { random_scalar(rng).to_string() } else { SIGMA[rng.weighted(&SIGMA_W)].to_string() };
                    for _ in 0..k {
                        bytes(&mut ops, s.as_bytes());
                    }
                } else {
                    for _ in 0..k {
                        bytes(&mut ops, SIGMA[rng.weighted(&SIGMA_W)].as_bytes());
                    }
                }
            }
            1 => {
                // hundreds of tokens (values, options, clusters, empty tokens)
                let k = burst_len(rng);
                let names = set.names();
                let name = if rng.chance(50) && !names.is_empty() { rng.pick(&names).clone() } else { "a".to_string() };
                bytes(&mut ops, name.as_bytes());
                for j in 0..k {
                    bytes(&mut ops, b" ");
                    let t = match rng.below(8) {
                        0 => "-b".to_string(),
                        1 => "--c".to_string(),
                        2 => "\"\"".to_string(),
                        3 => "é".to_string(),
                        4 => "--".to_string(),
                        _ => base36(j),
                    };
                    bytes(&mut ops, t.as_bytes());
                }
            }
            2 => {
                for _ in 0..burst_len(rng) {
                    bytes(&mut ops, &LEFT);
                }
            }
            3 => {
                for _ in 0..burst_len(rng) {
                    bytes(&mut ops, &RIGHT);
                }
            }
            4 => {
                for _ in 0..burst_len(rng) {
                    bytes(&mut ops, &[0x08]);
                }
            }
            5 => {
                let e = enter_bytes(rng);
                bytes(&mut ops, &e);
            }
            6 => {
                for _ in 0..burst_len(rng) {
                    bytes(&mut ops, &UP);
                }
                let mut f = vec![];
                follow_up(rng, &mut f);
                for k in f {
                    bytes(&mut ops, &k);
                }
            }
            7 => {
                for _ in 0..burst_len(rng) {
                    bytes(&mut ops, &DOWN);
                }
            }
            8 => bytes(&mut ops, &[0x09]),
            9 => {
                let mut c = gen_calls(rng);
                if rng.chance(40) {
                    // one long text: more than 255 / 256 characters in one write, with and without line breaks inside
                    let unit = *rng.pick(&["xy", "é", "x\ny", "€ ", "z"]);
                    // any length, and often a last line of exactly 255 / 256 / 257 / 512 bytes (a column or length counter of one octet)
                    let n = if rng.chance(40) { (*rng.pick(&[255usize, 256, 256, 257, 512, 768]) + unit.len() - 1) / unit.len() } else { burst_len(rng) };
                    let mut text = unit.repeat(n);
                    if rng.chance(50) && !unit.contains('\n') {
                        let want = *rng.pick(&[256usize, 512, 256]);
                        while text.len() > want {
                            text.pop();
                        }
                        while text.len() < want {
                            text.push('x');
                        }
                    }
                    c.push(WCall { kind: *rng.pick(&[WKind::Str, WKind::Ln, WKind::Ufmt, WKind::Fmt]), text });
                }
                ops.push(Op::Write(c));
            }
            10 => ops.push(Op::SetPrompt(any_prompt(rng))),
            _ => {
                // hundreds of distinct short lines submitted one after the other: entry counts and entry offsets beyond 255
                let k = burst_len(rng);
                for _ in 0..k {
                    let l = base36(next_line);
                    next_line += 1;
                    bytes(&mut ops, l.as_bytes());
                    bytes(&mut ops, b"\r");
                }
            }
        }
    }
    if p.end_probe {
        let n = (cfg.hist / 2 + 2).min(560);
        for _ in 0..3 {
            bytes(&mut ops, &DOWN);
        }
        for _ in 0..n {
            bytes(&mut ops, &UP);
        }
        for _ in 0..n {
            bytes(&mut ops, &DOWN);
        }
    }
    (cfg, ops)
}
