//! Seeded generators for sessions (configuration + op list).
use crate::prng::Rng;
use crate::rig::{HAction, WCall, WKind, PROMPTS};
use crate::session::{Op, SessionCfg};
use crate::sets::SetKind;

pub const CMD_SIZES: [usize; 12] = [0, 1, 2, 3, 4, 5, 7, 8, 13, 16, 32, 64];
pub const HIST_SIZES: [usize; 10] = [0, 1, 2, 3, 5, 8, 13, 16, 33, 64];
/// the ten-symbol alphabet of DESIGN §6 plus the letters of `help`
pub const SIGMA: [&str; 13] = ["a", "b", "h", "-", " ", "\"", "\\", "é", "€", "𐍈", "e", "l", "p"];
pub const SIGMA_W: [usize; 13] = [14, 12, 8, 8, 12, 5, 3, 8, 7, 7, 3, 3, 3];
pub const POOL: [&str; 8] = ["a", "b", "ab", "é", "abc", "a b", "€ 𐍈", "abba -h"];
pub const HELP_POOL: [&str; 8] = ["help", "help ab", "ab x --help", "b -h", "help ha take", "help nope", "ba 1 -h", "help -x"];

#[derive(Clone, Debug)]
pub struct Profile {
    pub w_char: usize,
    pub w_word: usize,
    pub w_pool_line: usize,
    pub w_backspace: usize,
    pub w_left: usize,
    pub w_right: usize,
    pub w_up: usize,
    pub w_down: usize,
    pub w_tab: usize,
    pub w_enter: usize,
    pub w_ignored: usize,
    pub w_write: usize,
    pub w_set_prompt: usize,
    pub min_keys: usize,
    pub max_keys: usize,
    pub sets: Vec<SetKind>,
    pub cmd_sizes: Vec<usize>,
    pub hist_sizes: Vec<usize>,
    /// handler behaviour: 0 silent only; 1 may write; 2 may write and change prompt
    pub handler_level: usize,
    pub inject_between_bytes: bool,
    pub chunked_sink: bool,
    pub fancy_csi: bool,
    pub end_probe: bool,
    pub help_lines: bool,
}

impl Profile {
    pub fn base() -> Self {
        Profile {
            w_char: 50,
            w_word: 4,
            w_pool_line: 3,
            w_backspace: 8,
            w_left: 8,
            w_right: 6,
            w_up: 5,
            w_down: 4,
            w_tab: 5,
            w_enter: 10,
            w_ignored: 1,
            w_write: 0,
            w_set_prompt: 0,
            min_keys: 10,
            max_keys: 80,
            sets: vec![SetKind::Raw, SetKind::FixA, SetKind::FixG],
            cmd_sizes: CMD_SIZES.to_vec(),
            hist_sizes: HIST_SIZES.to_vec(),
            handler_level: 2,
            inject_between_bytes: false,
            chunked_sink: true,
            fancy_csi: true,
            end_probe: false,
            help_lines: false,
        }
    }
}

pub fn gen_text(rng: &mut Rng) -> String {
    const T: [&str; 9] = ["x", "y", " ", "é", "€", "𐍈", "\n", "\r\n", "-"];
    const W: [usize; 9] = [10, 6, 4, 3, 3, 2, 6, 2, 2];
    let n = if rng.chance(12) { 0 } else { rng.range(1, 8) };
    let mut s = String::new();
    for _ in 0..n {
        s.push_str(T[rng.weighted(&W)]);
    }
    s
}

pub fn gen_calls(rng: &mut Rng) -> Vec<WCall> {
    let n = [0usize, 1, 1, 1, 2, 2, 3, 4][rng.below(8)];
    (0..n)
        .map(|_| WCall {
            kind: *rng.pick(&[WKind::Str, WKind::Str, WKind::Ln, WKind::Ufmt, WKind::Fmt, WKind::Fmt2]),
            text: gen_text(rng),
        })
        .collect()
}

pub fn gen_script(rng: &mut Rng, level: usize) -> Vec<HAction> {
    if level == 0 || rng.chance(20) {
        return vec![];
    }
    let n = rng.range(1, 3);
    (0..n)
        .map(|_| HAction {
            writes: if rng.chance(75) { gen_calls(rng) } else { vec![] },
            set_prompt: if level >= 2 && rng.chance(30) { Some(rng.below(PROMPTS.len())) } else { None },
            fail: false,
        })
        .collect()
}

fn csi(rng: &mut Rng, fin: u8, fancy: bool) -> Vec<u8> {
    let mut v = vec![0x1b, b'['];
    if fancy && rng.chance(15) {
        let n = rng.range(1, 5);
        for _ in 0..n {
            v.push(*rng.pick(b"0123456789;:<=>? !\"#$%&'()*+,-./"));
        }
    }
    v.push(fin);
    v
}

pub fn enter_bytes(rng: &mut Rng) -> Vec<u8> {
    match rng.below(6) {
        0 | 1 => vec![b'\r'],
        2 => vec![b'\n'],
        3 | 4 => vec![b'\r', b'\n'],
        _ => vec![b'\n', b'\r'],
    }
}

/// Generate one session. Keys are rendered to bytes; application calls are injected
/// between keys, or (profile.inject_between_bytes) between any two bytes.
pub fn gen_session(rng: &mut Rng, p: &Profile) -> (SessionCfg, Vec<Op>) {
    let set = *rng.pick(&p.sets);
    // boundary grid most of the time, any size 0..=48 otherwise (a bug may need a size off the grid)
    let off_grid = p.cmd_sizes.len() > 6 && rng.chance(35);
    let cfg = SessionCfg {
        cmd: if off_grid { rng.below(49) } else { *rng.pick(&p.cmd_sizes) },
        hist: if off_grid || (p.hist_sizes.len() > 6 && rng.chance(25)) { rng.below(49) } else { *rng.pick(&p.hist_sizes) },
        prompt: rng.below(PROMPTS.len()),
        set,
        use_new: rng.chance(5),
        chunk: if p.chunked_sink && rng.chance(15) { rng.range(1, 3) } else { 0 },
        script: gen_script(rng, p.handler_level),
    };
    let mut dict: Vec<String> = set.names();
    dict.push("help".into());
    let weights = [
        p.w_char, p.w_word, p.w_pool_line, p.w_backspace, p.w_left, p.w_right, p.w_up, p.w_down, p.w_tab, p.w_enter, p.w_ignored,
        p.w_write, p.w_set_prompt,
    ];
    let nkeys = rng.range(p.min_keys, p.max_keys);
    let mut ops: Vec<Op> = Vec::new();
    let push_bytes = |ops: &mut Vec<Op>, rng: &mut Rng, bytes: &[u8]| {
        for (j, &b) in bytes.iter().enumerate() {
            if j > 0 && p.inject_between_bytes && (p.w_write + p.w_set_prompt) > 0 && rng.chance(6) {
                if rng.below(p.w_write + p.w_set_prompt) < p.w_write {
                    let c = gen_calls(rng);
                    ops.push(Op::Write(c));
                } else {
                    ops.push(Op::SetPrompt(rng.below(PROMPTS.len())));
                }
            }
            ops.push(Op::Byte(b));
        }
    };
    for _ in 0..nkeys {
        match rng.weighted(&weights) {
            0 => {
                let s = SIGMA[rng.weighted(&SIGMA_W)];
                push_bytes(&mut ops, rng, s.as_bytes());
            }
            1 => {
                // a prefix of a known name (so that Tab has something to do)
                let w = rng.pick(&dict).clone();
                let n = w.chars().count();
                let k = rng.range(1, n);
                let pre: String = w.chars().take(k).collect();
                push_bytes(&mut ops, rng, pre.as_bytes());
            }
            2 => {
                let l = if p.help_lines && rng.chance(50) { *rng.pick(&HELP_POOL) } else { *rng.pick(&POOL) };
                push_bytes(&mut ops, rng, l.as_bytes());
                if rng.chance(70) {
                    let e = enter_bytes(rng);
                    push_bytes(&mut ops, rng, &e);
                }
            }
            3 => push_bytes(&mut ops, rng, &[0x08]),
            4 => {
                let b = csi(rng, b'D', p.fancy_csi);
                push_bytes(&mut ops, rng, &b)
            }
            5 => {
                let b = csi(rng, b'C', p.fancy_csi);
                push_bytes(&mut ops, rng, &b)
            }
            6 => {
                let b = csi(rng, b'A', p.fancy_csi);
                push_bytes(&mut ops, rng, &b)
            }
            7 => {
                let b = csi(rng, b'B', p.fancy_csi);
                push_bytes(&mut ops, rng, &b)
            }
            8 => push_bytes(&mut ops, rng, &[0x09]),
            9 => {
                let e = enter_bytes(rng);
                push_bytes(&mut ops, rng, &e)
            }
            10 => {
                // ignored input: other C0 controls, lone ESC followed by a non-[ byte, CSI with another final
                match rng.below(4) {
                    0 => {
                        let c = *rng.pick(&[0x00u8, 0x01, 0x07, 0x0b, 0x0c, 0x1a, 0x1f]);
                        push_bytes(&mut ops, rng, &[c])
                    }
                    1 => push_bytes(&mut ops, rng, &[0x1b, 0x01]),
                    2 => {
                        let f = *rng.pick(b"~HFZmPQ@");
                        let b = csi(rng, f, true);
                        push_bytes(&mut ops, rng, &b)
                    }
                    _ => push_bytes(&mut ops, rng, &[0x1b]),
                }
            }
            11 => {
                let c = gen_calls(rng);
                ops.push(Op::Write(c));
            }
            _ => ops.push(Op::SetPrompt(rng.below(PROMPTS.len()))),
        }
    }
    if p.end_probe {
        // walk to "not navigating", then all the way up, then all the way down again
        let n = (cfg.hist / 2 + 2).min(36);
        for _ in 0..n {
            ops.extend([0x1b, b'[', b'B'].map(Op::Byte));
        }
        for _ in 0..n {
            ops.extend([0x1b, b'[', b'A'].map(Op::Byte));
        }
        for _ in 0..n {
            ops.extend([0x1b, b'[', b'B'].map(Op::Byte));
        }
    }
    (cfg, ops)
}
