//! MonSink: the monitored `embedded_io::Write` sink. Logs every call, injects faults.
use embedded_io::{ErrorKind, ErrorType, Write};
use std::cell::RefCell;
use std::rc::Rc;

/// Error value carrying the global index of the sink call that failed.
#[derive(Clone, Copy, Debug, PartialEq, Eq)]
pub struct SinkErr(pub usize);

impl embedded_io::Error for SinkErr {
    /// the kind varies with the failing call (every position of every scenario is failed in turn, so every kind is seen on every
    /// path): no kind of error may be treated as "not really an error" -- retried, ignored, turned into something else
    fn kind(&self) -> ErrorKind {
        const KINDS: [ErrorKind; 8] = [
            ErrorKind::Other,
            ErrorKind::Interrupted,
            ErrorKind::TimedOut,
            ErrorKind::WriteZero,
            ErrorKind::BrokenPipe,
            ErrorKind::OutOfMemory,
            ErrorKind::InvalidInput,
            ErrorKind::NotConnected,
        ];
        KINDS[(self.0 + KIND_SHIFT.with(|c| c.get())) % KINDS.len()]
    }
}

thread_local! {
    static KIND_SHIFT: std::cell::Cell<usize> = const { std::cell::Cell::new(0) };
}

/// rotate which kind goes with which call index (the fault-enumeration workloads set it per scenario)
pub fn set_kind_shift(n: usize) {
    KIND_SHIFT.with(|c| c.set(n));
}

/// upper bound on what one session may write (the longest sessions of any workload stay below 1 MiB)
pub const FLOOD_LIMIT: usize = 8 << 20;

#[derive(Clone, Copy, Debug, PartialEq, Eq)]
pub enum Fault {
    None,
    /// fail exactly the call with this global index
    Once(usize),
    /// fail every call with global index >= this
    Sticky(usize),
}

#[derive(Clone, Copy, Debug, PartialEq, Eq)]
pub enum Ev {
    /// write call: range into `bytes`
    W(usize, usize),
    F,
    /// failed write attempt (nothing accepted)
    WFail,
    FFail,
}

#[derive(Debug)]
pub struct SinkState {
    pub bytes: Vec<u8>,
    pub events: Vec<Ev>,
    /// number of sink calls so far (write or flush, successful or not)
    pub calls: usize,
    pub fault: Fault,
    /// accept at most this many bytes per write call (0 = unlimited)
    pub chunk: usize,
    pub failed_calls: Vec<usize>,
}

impl SinkState {
    fn should_fail(&mut self) -> Option<SinkErr> {
        let idx = self.calls;
        self.calls += 1;
        let fail = match self.fault {
            Fault::None => false,
            Fault::Once(k) => idx == k,
            Fault::Sticky(k) => idx >= k,
        };
        if fail {
            self.failed_calls.push(idx);
            Some(SinkErr(idx))
        } else {
            None
        }
    }
}

#[derive(Clone, Debug)]
pub struct MonSink(pub Rc<RefCell<SinkState>>);

impl MonSink {
    pub fn new() -> Self {
        MonSink(Rc::new(RefCell::new(SinkState {
            bytes: Vec::new(),
            events: Vec::new(),
            calls: 0,
            fault: Fault::None,
            chunk: 0,
            failed_calls: Vec::new(),
        })))
    }
}

impl ErrorType for MonSink {
    type Error = SinkErr;
}

impl Write for MonSink {
    fn write(&mut self, buf: &[u8]) -> Result<usize, SinkErr> {
        let mut s = self.0.borrow_mut();
        if let Some(e) = s.should_fail() {
            s.events.push(Ev::WFail);
            return Err(e);
        }
        let n = if s.chunk > 0 { buf.len().min(s.chunk) } else { buf.len() };
        let a = s.bytes.len();
        if a + n > FLOOD_LIMIT {
            // no session of any workload writes anywhere near this much: the library is emitting output without end
            // (e.g. a padding loop whose bound wrapped around). Stop it here -- as a panic, which every driver reports as a
            // crash of the session -- instead of filling the machine's memory.
            drop(s);
            panic!("output flood: more than {} bytes written to the sink in one session", FLOOD_LIMIT);
        }
        s.bytes.extend_from_slice(&buf[..n]);
        s.events.push(Ev::W(a, a + n));
        Ok(n)
    }
    fn flush(&mut self) -> Result<(), SinkErr> {
        let mut s = self.0.borrow_mut();
        if let Some(e) = s.should_fail() {
            s.events.push(Ev::FFail);
            return Err(e);
        }
        s.events.push(Ev::F);
        Ok(())
    }
}
