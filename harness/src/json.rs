//! Minimal JSON value + writer (no external crates).
use std::collections::BTreeMap;
use std::fmt::Write;

#[derive(Clone, Debug, PartialEq)]
pub enum J {
    Null,
    Bool(bool),
    Int(i64),
    Num(f64),
    Str(String),
    Arr(Vec<J>),
    Obj(BTreeMap<String, J>),
}

impl J {
    pub fn obj() -> J {
        J::Obj(BTreeMap::new())
    }
    pub fn s(x: impl Into<String>) -> J {
        J::Str(x.into())
    }
    pub fn set(mut self, k: &str, v: J) -> J {
        if let J::Obj(m) = &mut self {
            m.insert(k.to_string(), v);
        }
        self
    }
    pub fn put(&mut self, k: &str, v: J) {
        if let J::Obj(m) = self {
            m.insert(k.to_string(), v);
        }
    }
    pub fn to_string(&self) -> String {
        let mut s = String::new();
        self.write(&mut s);
        s
    }
    fn write(&self, out: &mut String) {
        match self {
            J::Null => out.push_str("null"),
            J::Bool(b) => out.push_str(if *b { "true" } else { "false" }),
            J::Int(i) => {
                let _ = write!(out, "{}", i);
            }
            J::Num(f) => {
                if f.is_finite() {
                    let _ = write!(out, "{}", f);
                } else {
                    out.push_str("null");
                }
            }
            J::Str(s) => esc(s, out),
            J::Arr(a) => {
                out.push('[');
                for (i, x) in a.iter().enumerate() {
                    if i > 0 {
                        out.push(',');
                    }
                    x.write(out);
                }
                out.push(']');
            }
            J::Obj(m) => {
                out.push('{');
                for (i, (k, v)) in m.iter().enumerate() {
                    if i > 0 {
                        out.push(',');
                    }
                    esc(k, out);
                    out.push(':');
                    v.write(out);
                }
                out.push('}');
            }
        }
    }
}

fn esc(s: &str, out: &mut String) {
    out.push('"');
    for c in s.chars() {
        match c {
            '"' => out.push_str("\\\""),
            '\\' => out.push_str("\\\\"),
            '\n' => out.push_str("\\n"),
            '\r' => out.push_str("\\r"),
            '\t' => out.push_str("\\t"),
            c if (c as u32) < 0x20 || c == '\u{7f}' => {
                let _ = write!(out, "\\u{:04x}", c as u32);
            }
            c => out.push(c),
        }
    }
    out.push('"');
}

/// Render arbitrary bytes for humans: printable ASCII as is, everything else \xHH
pub fn show_bytes(b: &[u8]) -> String {
    let mut s = String::new();
    for &x in b {
        if (0x20..0x7f).contains(&x) && x != b'\\' {
            s.push(x as char);
        } else {
            let _ = write!(s, "\\x{:02X}", x);
        }
    }
    s
}

pub fn hex(b: &[u8]) -> String {
    let mut s = String::new();
    for &x in b {
        let _ = write!(s, "{:02x}", x);
    }
    s
}

pub fn unhex(s: &str) -> Option<Vec<u8>> {
    if s.len() % 2 != 0 {
        return None;
    }
    let b = s.as_bytes();
    let mut out = Vec::with_capacity(b.len() / 2);
    for i in (0..b.len()).step_by(2) {
        let h = (b[i] as char).to_digit(16)?;
        let l = (b[i + 1] as char).to_digit(16)?;
        out.push((h * 16 + l) as u8);
    }
    Some(out)
}
