//! Fixed corpus of command sets used by the session workloads.
use crate::rig::ParseFn;
use embedded_cli::command::RawCommand;
use embedded_cli::service::FromRaw;
use embedded_cli::{Command, CommandGroup};

#[derive(Debug, Command)]
pub enum SubA<'a> {
    /// Put something
    #[command(name = "put")]
    Put,
    /// Take a thing
    #[command(name = "take")]
    Take {
        /// What to take
        what: &'a str,
    },
}

/// Names deliberately share prefixes without being adjacent in the declaration.
#[derive(Debug, Command)]
pub enum FixA<'a> {
    /// Ab command.
    ///
    /// Long text of ab.
    #[command(name = "ab")]
    Ab {
        /// Bee level
        #[arg(short = 'b', long)]
        bee: Option<u8>,
        /// Be chatty
        #[arg(short = 'v')]
        verbose: bool,
        /// First thing
        first: &'a str,
        /// Second thing
        second: Option<&'a str>,
    },
    /// B command
    #[command(name = "b")]
    B {
        #[arg(short = 'a', long = "all")]
        all: bool,
    },
    #[command(name = "abba")]
    Abba,
    /// Multi-byte name
    #[command(name = "hé€")]
    He,
    #[command(name = "ah-é")]
    Ahe,
    /// Has a sub-command
    #[command(name = "ha")]
    Ha {
        #[arg(long)]
        level: Option<i16>,
        #[command(subcommand)]
        sub: SubA<'a>,
    },
}

pub const FIXA_NAMES: [&str; 6] = ["ab", "b", "abba", "hé€", "ah-é", "ha"];

#[derive(Debug, Command)]
pub enum FixB {
    /// Ba command
    #[command(name = "ba")]
    Ba { n: i32 },
    #[command(name = "help-me")]
    HelpMe,
}
pub const FIXB_NAMES: [&str; 2] = ["ba", "help-me"];

#[derive(Debug, Command)]
pub enum FixH {
    #[command(name = "hidden")]
    Hidden,
    #[command(name = "abh")]
    Abh,
}

/// Names that part company *inside* a multi-byte character: same lead octet (and same second / third octet),
/// different tail. A common continuation computed on bytes would end in the middle of a character.
#[derive(Debug, Command)]
pub enum FixU<'a> {
    /// Up
    #[command(name = "向上")]
    Up {
        /// How far
        n: Option<u8>,
    },
    #[command(name = "向下")]
    Down,
    #[command(name = "€a")]
    Eur,
    #[command(name = "₭b")]
    Kip { what: &'a str },
    #[command(name = "𐍈x")]
    G1,
    #[command(name = "𐍉y")]
    G2,
    #[command(name = "𐎈z")]
    G3,
    #[command(name = "ña")]
    N1,
    #[command(name = "òb")]
    N2,
    #[command(name = "かな")]
    Ka,
    #[command(name = "きの")]
    Ki,
    #[command(name = "アイ")]
    A,
    // octet 0xBF (the last continuation value) inside the shared part / at the point of divergence
    #[command(name = "俄a")]
    E1,
    #[command(name = "俊b")]
    E2,
    #[command(name = "топ")]
    T1,
    #[command(name = "той")]
    T2,
    // ... the same with the 0xBF candidate declared last, and with 0xBF as the shared second octet behind a shared character
    #[command(name = "рой")]
    R1,
    #[command(name = "роп")]
    R2,
    #[command(name = "з俄")]
    Z1,
    #[command(name = "з俊")]
    Z2,
}
pub const FIXU_NAMES: [&str; 20] = ["向上", "向下", "€a", "₭b", "𐍈x", "𐍉y", "𐎈z", "ña", "òb", "かな", "きの", "アイ", "俄a", "俊b", "топ", "той", "рой", "роп", "з俄", "з俊"];

/// Short options whose character comes from a non-ASCII field identifier (generated) or is given explicitly,
/// one per UTF-8 length.
#[derive(Debug, Command)]
pub enum FixN {
    #[command(name = "n")]
    N {
        #[arg(short)]
        число: bool,
        #[arg(short)]
        über: bool,
        #[arg(short)]
        語: Option<u8>,
        #[arg(short = '𐍈')]
        goth: bool,
        #[arg(short)]
        plain: bool,
    },
}
pub fn parse_fixn<'a>(raw: RawCommand<'a>) -> Result<String, embedded_cli::service::ParseError<'a>> {
    FixN::parse(raw).map(|c| format!("{:?}", c))
}

#[derive(Debug, CommandGroup)]
pub enum FixG<'a> {
    A(FixA<'a>),
    #[group(hidden)]
    H(FixH),
    B(FixB),
    Other(RawCommand<'a>),
}

#[derive(Clone, Copy, Debug, PartialEq, Eq, Hash)]
pub enum SetKind {
    Raw,
    FixA,
    FixG,
    FixU,
}

impl SetKind {
    pub fn name(&self) -> &'static str {
        match self {
            SetKind::Raw => "raw",
            SetKind::FixA => "fixa",
            SetKind::FixG => "fixg",
            SetKind::FixU => "fixu",
        }
    }
    pub fn from_name(s: &str) -> Option<Self> {
        match s {
            "raw" => Some(SetKind::Raw),
            "fixa" => Some(SetKind::FixA),
            "fixg" => Some(SetKind::FixG),
            "fixu" => Some(SetKind::FixU),
            _ => None,
        }
    }
    /// names of the commands of all visible groups (without the built-in help)
    pub fn names(&self) -> Vec<String> {
        match self {
            SetKind::Raw => vec![],
            SetKind::FixA => FIXA_NAMES.iter().map(|s| s.to_string()).collect(),
            SetKind::FixG => FIXA_NAMES.iter().chain(FIXB_NAMES.iter()).map(|s| s.to_string()).collect(),
            SetKind::FixU => FIXU_NAMES.iter().map(|s| s.to_string()).collect(),
        }
    }
    pub fn parse_fn(&self) -> Option<ParseFn> {
        match self {
            SetKind::Raw => None,
            SetKind::FixA => Some(parse_fixa),
            SetKind::FixG => Some(parse_fixg),
            SetKind::FixU => Some(parse_fixu),
        }
    }
}

fn parse_fixa<'a>(raw: RawCommand<'a>) -> Result<String, embedded_cli::service::ParseError<'a>> {
    FixA::parse(raw).map(|c| format!("{:?}", c))
}
fn parse_fixg<'a>(raw: RawCommand<'a>) -> Result<String, embedded_cli::service::ParseError<'a>> {
    FixG::parse(raw).map(|c| format!("{:?}", c))
}

fn parse_fixu<'a>(raw: RawCommand<'a>) -> Result<String, embedded_cli::service::ParseError<'a>> {
    FixU::parse(raw).map(|c| format!("{:?}", c))
}

/// Dispatch a generic function over the command-set type.
#[macro_export]
macro_rules! with_set {
    ($kind:expr, $f:ident, $($args:expr),*) => {
        match $kind {
            $crate::sets::SetKind::Raw => $f::<embedded_cli::command::RawCommand<'static>>($($args),*),
            $crate::sets::SetKind::FixA => $f::<$crate::sets::FixA<'static>>($($args),*),
            $crate::sets::SetKind::FixG => $f::<$crate::sets::FixG<'static>>($($args),*),
            $crate::sets::SetKind::FixU => $f::<$crate::sets::FixU<'static>>($($args),*),
        }
    };
}
