//! Small deterministic PRNG (splitmix64 seeding + xorshift64*). No external crates.

#[derive(Clone, Debug)]
pub struct Rng(u64);

pub fn splitmix(mut z: u64) -> u64 {
    z = z.wrapping_add(0x9E37_79B9_7F4A_7C15);
    z = (z ^ (z >> 30)).wrapping_mul(0xBF58_476D_1CE4_E5B9);
    z = (z ^ (z >> 27)).wrapping_mul(0x94D0_49BB_1331_11EB);
    z ^ (z >> 31)
}

impl Rng {
    pub fn new(seed: u64) -> Self {
        let s = splitmix(seed ^ 0xA5A5_5A5A_DEAD_BEEF);
        Rng(if s == 0 { 0x1234_5678_9ABC_DEF1 } else { s })
    }
    /// Independent stream derived from (seed, a, b)
    pub fn derive(seed: u64, a: u64, b: u64) -> Self {
        Rng::new(splitmix(splitmix(seed).wrapping_add(a)).wrapping_add(b.wrapping_mul(0x2545_F491_4F6C_DD1D)))
    }
    pub fn next(&mut self) -> u64 {
        let mut x = self.0;
        x ^= x >> 12;
        x ^= x << 25;
        x ^= x >> 27;
        self.0 = x;
        x.wrapping_mul(0x2545_F491_4F6C_DD1D)
    }
    /// uniform in 0..n (n > 0)
    pub fn below(&mut self, n: usize) -> usize {
        ((self.next() >> 11) % (n as u64)) as usize
    }
    pub fn range(&mut self, lo: usize, hi_incl: usize) -> usize {
        lo + self.below(hi_incl - lo + 1)
    }
    pub fn chance(&mut self, percent: usize) -> bool {
        self.below(100) < percent
    }
    pub fn pick<'a, T>(&mut self, xs: &'a [T]) -> &'a T {
        &xs[self.below(xs.len())]
    }
    /// weighted index
    pub fn weighted(&mut self, w: &[usize]) -> usize {
        let total: usize = w.iter().sum();
        let mut r = self.below(total.max(1));
        for (i, &x) in w.iter().enumerate() {
            if r < x {
                return i;
            }
            r -= x;
        }
        w.len() - 1
    }
}

/// FNV-1a style 64-bit hash for distinct-state sketches
pub fn hash_bytes(h0: u64, bytes: &[u8]) -> u64 {
    let mut h = h0 ^ 0xcbf2_9ce4_8422_2325;
    for &b in bytes {
        h ^= b as u64;
        h = h.wrapping_mul(0x0000_0100_0000_01B3);
    }
    splitmix(h)
}

pub fn hash_u64s(xs: &[u64]) -> u64 {
    let mut h = 0x6a09_e667_f3bc_c908u64;
    for &x in xs {
        h = splitmix(h ^ x);
    }
    h
}
