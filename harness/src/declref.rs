//! Reference interpreter of a declaration spec (C09) and help expectations (C12), written from
//! the property statements.
use crate::declgen::*;
use crate::refmodel::{ref_classify, Item};

#[derive(Clone, Debug, PartialEq)]
pub enum Val {
    Int(i128),
    UInt(u128),
    F32(f32),
    F64(f64),
    Bool(bool),
    Char(char),
    Str(String),
    Hex(u32),
    Tag(String),
    None,
    Some(Box<Val>),
    /// variant of an enum: ident, named fields (or a single unnamed one)
    Variant { ident: String, named: Vec<(String, Val)>, tuple: Option<Box<Val>>, unit: bool },
    /// group wrapper
    Wrapped { ident: String, inner: Box<Val> },
    /// RawCommand catch-all member of a group: only the wrapper is compared
    RawCatchAll { ident: String },
}

impl Val {
    /// rendering identical to #[derive(Debug)]
    pub fn render(&self) -> String {
        match self {
            Val::Int(i) => i.to_string(),
            Val::UInt(u) => u.to_string(),
            Val::F32(f) => format!("{:?}", f),
            Val::F64(f) => format!("{:?}", f),
            Val::Bool(b) => b.to_string(),
            Val::Char(c) => format!("{:?}", c),
            Val::Str(s) => format!("{:?}", s),
            Val::Hex(n) => format!("Hex({})", n),
            Val::Tag(t) => format!("Tag({:?})", t),
            Val::None => "None".into(),
            Val::Some(v) => format!("Some({})", v.render()),
            Val::Variant { ident, named, tuple, unit } => {
                if *unit {
                    ident.clone()
                } else if let Some(t) = tuple {
                    format!("{}({})", ident, t.render())
                } else {
                    format!("{} {{ {} }}", ident, named.iter().map(|(n, v)| format!("{}: {}", n, v.render())).collect::<Vec<_>>().join(", "))
                }
            }
            Val::Wrapped { ident, inner } => format!("{}({})", ident, inner.render()),
            Val::RawCatchAll { ident } => format!("{}(RawCommand {{", ident),
        }
    }
}

#[derive(Clone, Debug, PartialEq)]
pub enum PErr {
    UnknownCommand,
    UnexpectedArgument(String),
    UnexpectedLong(String),
    UnexpectedShort(char),
    ParseValue { value: String, expected: String },
    Missing(String),
}

#[derive(Clone, Debug, PartialEq)]
pub enum Expect {
    Ok(Val),
    /// any of these errors is the "first offending item" under some reading the statement allows
    Err(Vec<PErr>),
    /// the statement does not decide this line
    Unspecified(&'static str),
}

/// the field type's canonical parser (Rust's str::parse)
pub fn convert(ty: Ty, text: &str) -> Option<Val> {
    Some(match ty {
        Ty::U8 => Val::UInt(text.parse::<u8>().ok()? as u128),
        Ty::U16 => Val::UInt(text.parse::<u16>().ok()? as u128),
        Ty::U32 => Val::UInt(text.parse::<u32>().ok()? as u128),
        Ty::U64 => Val::UInt(text.parse::<u64>().ok()? as u128),
        Ty::U128 => Val::UInt(text.parse::<u128>().ok()?),
        Ty::Usize => Val::UInt(text.parse::<usize>().ok()? as u128),
        Ty::I8 => Val::Int(text.parse::<i8>().ok()? as i128),
        Ty::I16 => Val::Int(text.parse::<i16>().ok()? as i128),
        Ty::I32 => Val::Int(text.parse::<i32>().ok()? as i128),
        Ty::I64 => Val::Int(text.parse::<i64>().ok()? as i128),
        Ty::I128 => Val::Int(text.parse::<i128>().ok()?),
        Ty::Isize => Val::Int(text.parse::<isize>().ok()? as i128),
        Ty::F32 => Val::F32(text.parse::<f32>().ok()?),
        Ty::F64 => Val::F64(text.parse::<f64>().ok()?),
        Ty::Bool => Val::Bool(text.parse::<bool>().ok()?),
        Ty::Char => Val::Char(text.parse::<char>().ok()?),
        Ty::Str => Val::Str(text.to_string()),
        Ty::Hex => Val::Hex(crate::usertypes::parse_hex(text)?),
        Ty::Tag => Val::Tag(crate::usertypes::parse_tag(text)?.to_string()),
    })
}

fn default_of(ty: Ty) -> Val {
    match ty {
        Ty::U8 | Ty::U16 | Ty::U32 | Ty::U64 | Ty::U128 | Ty::Usize => Val::UInt(0),
        Ty::I8 | Ty::I16 | Ty::I32 | Ty::I64 | Ty::I128 | Ty::Isize => Val::Int(0),
        Ty::F32 => Val::F32(0.0),
        Ty::F64 => Val::F64(0.0),
        Ty::Bool => Val::Bool(false),
        Ty::Char => Val::Char('\0'),
        Ty::Str => Val::Str(String::new()),
        Ty::Hex => Val::Hex(0),
        Ty::Tag => Val::Tag(String::new()),
    }
}

/// items with the index of the token each came from
fn classify_indexed(tokens: &[String]) -> Vec<(Item, usize)> {
    let mut out = vec![];
    let mut values_only = false;
    for (ti, t) in tokens.iter().enumerate() {
        if values_only {
            out.push((Item::Value(t.clone()), ti));
            continue;
        }
        let one = ref_classify(std::slice::from_ref(t));
        if one == vec![Item::DoubleDash] {
            values_only = true;
        }
        for it in one {
            out.push((it, ti));
        }
    }
    out
}

/// Interpret `name tokens...` against enum `ei` of the declaration.
pub fn interp_enum(d: &Decl, ei: usize, name: &str, tokens: &[String]) -> Expect {
    let e = &d.enums[ei];
    let v = match e.variants.iter().find(|v| v.name == name) {
        Some(v) => v,
        None => return Expect::Err(vec![PErr::UnknownCommand]),
    };
    let items = classify_indexed(tokens);
    let nf = v.fields.len();
    let mut vals: Vec<Option<Val>> = vec![None; nf];
    let mut waiting: Option<usize> = None;
    let positionals: Vec<usize> = (0..nf).filter(|&i| v.fields[i].is_positional()).collect();
    let mut pos_idx = 0;
    let mut sub_val: Option<Val> = None;
    let mut sub_err: Option<Vec<PErr>> = None;
    let mut seen_dd = false;
    let find_named = |long: Option<&str>, short: Option<char>| -> Option<usize> {
        (0..nf).find(|&i| match &v.fields[i].kind {
            FieldKind::Named { long: l, short: s, .. } => (long.is_some() && l.as_deref() == long) || (short.is_some() && *s == short),
            _ => false,
        })
    };
    let mut k = 0;
    while k < items.len() {
        let (it, ti) = &items[k];
        k += 1;
        match it {
            Item::DoubleDash => {
                if waiting.is_some() {
                    return Expect::Unspecified("option followed by -- (missing value)");
                }
                seen_dd = true;
            }
            Item::Long(_) | Item::Short(_) => {
                if waiting.is_some() {
                    return Expect::Unspecified("option followed by another option (missing value)");
                }
                let fi = match it {
                    Item::Long(n) => find_named(Some(n), None),
                    Item::Short(c) => find_named(None, Some(*c)),
                    _ => None,
                };
                match fi {
                    None => {
                        return Expect::Err(vec![match it {
                            Item::Long(n) => PErr::UnexpectedLong(n.clone()),
                            Item::Short(c) => PErr::UnexpectedShort(*c),
                            _ => unreachable!(),
                        }])
                    }
                    Some(i) => {
                        if vals[i].is_some() {
                            return Expect::Unspecified("repeated option");
                        }
                        if v.fields[i].is_flag() {
                            vals[i] = Some(Val::Bool(true));
                        } else {
                            waiting = Some(i);
                        }
                    }
                }
            }
            Item::Value(text) => {
                if let Some(i) = waiting.take() {
                    match convert(v.fields[i].ty, text) {
                        Some(x) => vals[i] = Some(x),
                        None => return Expect::Err(vec![PErr::ParseValue { value: text.clone(), expected: v.fields[i].ty.expected_name().to_string() }]),
                    }
                } else if let Some(s) = &v.sub {
                    if seen_dd {
                        return Expect::Unspecified("-- before a sub-command name");
                    }
                    // the rest of the tokens belongs to the sub-command
                    let rest = &tokens[ti + 1..];
                    match interp_enum(d, s.enum_idx, text, rest) {
                        Expect::Ok(x) => sub_val = Some(x),
                        Expect::Err(e) => sub_err = Some(e),
                        u => return u,
                    }
                    break;
                } else if pos_idx < positionals.len() {
                    let i = positionals[pos_idx];
                    pos_idx += 1;
                    match convert(v.fields[i].ty, text) {
                        Some(x) => vals[i] = Some(x),
                        None => return Expect::Err(vec![PErr::ParseValue { value: text.clone(), expected: v.fields[i].ty.expected_name().to_string() }]),
                    }
                } else {
                    return Expect::Err(vec![PErr::UnexpectedArgument(text.clone())]);
                }
            }
        }
    }
    if waiting.is_some() {
        return Expect::Unspecified("option at the end of the line (missing value)");
    }
    // absent fields: None / default / first missing required argument in declaration order
    let mut first_missing: Option<PErr> = None;
    let mut named: Vec<(String, Val)> = vec![];
    for (i, f) in v.fields.iter().enumerate() {
        let val = match vals[i].take() {
            Some(x) => {
                if f.optional {
                    Val::Some(Box::new(x))
                } else {
                    x
                }
            }
            None => {
                if f.optional {
                    Val::None
                } else if f.is_flag() {
                    Val::Bool(false)
                } else {
                    match &f.default {
                        Some(DefaultSpec::Text(t)) | Some(DefaultSpec::TypedExpr(_, t)) => match convert(f.ty, t) {
                            Some(x) => x,
                            None => return Expect::Unspecified("default text the type cannot parse"),
                        },
                        Some(DefaultSpec::TypedBare) => default_of(f.ty),
                        None => {
                            if first_missing.is_none() {
                                first_missing = Some(PErr::Missing(f.usage_name()));
                            }
                            Val::None
                        }
                    }
                }
            }
        };
        named.push((f.name.clone(), val));
    }
    if let Some(s) = &v.sub {
        if sub_val.is_none() && sub_err.is_none() && !s.optional && first_missing.is_none() {
            first_missing = Some(PErr::Missing("<COMMAND>".into()));
        }
    }
    if let Some(mut e) = sub_err {
        // an offending *item* inside the sub-command's part of the line comes before any missing argument (those are
        // only known once the line has been read to its end); between a child's and a parent's missing argument
        // either may be "first"
        if let Some(m) = first_missing {
            if e.iter().all(|x| matches!(x, PErr::Missing(_))) {
                e.push(m);
            }
        }
        return Expect::Err(e);
    }
    if let Some(m) = first_missing {
        return Expect::Err(vec![m]);
    }
    if v.is_unit() {
        return Expect::Ok(Val::Variant { ident: v.ident.clone(), named: vec![], tuple: None, unit: true });
    }
    if v.is_tuple() {
        return Expect::Ok(Val::Variant { ident: v.ident.clone(), named: vec![], tuple: Some(Box::new(sub_val.unwrap())), unit: false });
    }
    if let Some(s) = &v.sub {
        let sv = match sub_val {
            Some(x) => {
                if s.optional {
                    Val::Some(Box::new(x))
                } else {
                    x
                }
            }
            None => Val::None,
        };
        let pos = s.position.min(named.len());
        named.insert(pos, (s.field_name.clone().unwrap(), sv));
    }
    Expect::Ok(Val::Variant { ident: v.ident.clone(), named, tuple: None, unit: false })
}

/// Interpret a whole line (already tokenised) against the declaration's top-level set.
pub fn interp_top(d: &Decl, name: &str, tokens: &[String]) -> Expect {
    match &d.top {
        Top::Enum(i) => interp_enum(d, *i, name, tokens),
        Top::Group(g) => {
            // members are tried in order; the first that knows the name decides
            for (mi, m) in g.members.iter().enumerate() {
                match &m.member {
                    Member::Enum(i) => {
                        if d.enums[*i].variants.iter().any(|v| v.name == name) {
                            return match interp_enum(d, *i, name, tokens) {
                                Expect::Ok(v) => Expect::Ok(Val::Wrapped { ident: m.ident.clone(), inner: Box::new(v) }),
                                // an unknown *sub*-command inside this member: the statement does not say
                                // whether later members (a catch-all) are still tried
                                Expect::Err(e) if e.contains(&PErr::UnknownCommand) && g.members[mi + 1..].iter().any(|x| x.member == Member::Raw) => {
                                    Expect::Unspecified("unknown sub-command in a group that has a catch-all member")
                                }
                                other => other,
                            };
                        }
                    }
                    Member::Raw => return Expect::Ok(Val::RawCatchAll { ident: m.ident.clone() }),
                }
            }
            Expect::Err(vec![PErr::UnknownCommand])
        }
    }
}

// ------------------------------------------------------------------ help expectations (C12)

pub fn words(s: &str) -> Vec<String> {
    s.split_whitespace().map(|w| w.to_string()).collect()
}

/// summary: first paragraph, lines joined, one final period removed (not when it ends with "..")
pub fn summary_of(doc: &[Vec<String>]) -> Option<String> {
    let p = doc.first()?;
    let mut s = p.iter().map(|l| l.trim().to_string()).collect::<Vec<_>>().join(" ");
    if s.ends_with('.') && !s.ends_with("..") {
        s.pop();
    }
    Some(s)
}

/// description: every paragraph, lines joined
pub fn description_of(doc: &[Vec<String>]) -> Vec<String> {
    doc.iter().map(|p| p.iter().map(|l| l.trim().to_string()).collect::<Vec<_>>().join(" ")).collect()
}

/// Walk a command path through the declaration. Returns the variant and its enum, or None when
/// some element is unknown / hidden at top level.
pub fn resolve_path<'a>(d: &'a Decl, path: &[String]) -> Option<&'a VariantSpec> {
    let mut cur: Option<&VariantSpec> = None;
    for (k, name) in path.iter().enumerate() {
        if k == 0 {
            for (m, hidden, _) in d.top_members() {
                if hidden {
                    continue;
                }
                if let Member::Enum(i) = m {
                    if let Some(v) = d.enums[i].variants.iter().find(|v| &v.name == name) {
                        cur = Some(v);
                        break;
                    }
                }
            }
            cur?;
        } else {
            let s = cur?.sub.as_ref()?;
            cur = Some(d.enums[s.enum_idx].variants.iter().find(|v| &v.name == name)?);
        }
    }
    cur
}

/// every command path of the declaration reachable through visible groups (depth-first)
pub fn all_paths(d: &Decl) -> Vec<Vec<String>> {
    fn rec(d: &Decl, ei: usize, prefix: &[String], out: &mut Vec<Vec<String>>) {
        for v in &d.enums[ei].variants {
            let mut p = prefix.to_vec();
            p.push(v.name.clone());
            out.push(p.clone());
            if let Some(s) = &v.sub {
                rec(d, s.enum_idx, &p, out);
            }
        }
    }
    let mut out = vec![];
    for (m, hidden, _) in d.top_members() {
        if let (Member::Enum(i), false) = (m, hidden) {
            rec(d, i, &[], &mut out);
        }
    }
    out
}

pub fn hidden_names(d: &Decl) -> Vec<String> {
    let mut v = vec![];
    for (m, hidden, _) in d.top_members() {
        if let (Member::Enum(i), true) = (m, hidden) {
            v.extend(d.enums[i].variants.iter().map(|x| x.name.clone()));
        }
    }
    v
}
