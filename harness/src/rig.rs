//! The rig: a real `Cli` over a MonSink with a recording command processor.
use crate::sink::{MonSink, SinkErr};
use core::fmt::Write as _;
use embedded_cli::arguments::Arg;
use embedded_cli::cli::{Cli, CliBuilder, CliHandle};
use embedded_cli::command::RawCommand;
use embedded_cli::service::{Autocomplete, CommandProcessor, Help, ParseError, ProcessError};
use std::marker::PhantomData;

/// the first `SMALL_PROMPTS` are used everywhere; the two long ones (262 scalar values each, 262 / 655 bytes) only by the
/// large-buffer sessions (lengths, columns and offsets beyond 255)
pub const SMALL_PROMPTS: usize = 6;
pub const PROMPTS: [&str; 8] = ["$ ", "", "#", "###> ", "λ→ ", "é€𐍈 ", "01234567890123456789012345678901234567890123456789012345678901234567890123456789012345678901234567890123456789012345678901234567890123456789012345678901234567890123456789012345678901234567890123456789012345678901234567890123456789012345678901234567890123456789> ", "é€é€é€é€é€é€é€é€é€é€é€é€é€é€é€é€é€é€é€é€é€é€é€é€é€é€é€é€é€é€é€é€é€é€é€é€é€é€é€é€é€é€é€é€é€é€é€é€é€é€é€é€é€é€é€é€é€é€é€é€é€é€é€é€é€é€é€é€é€é€é€é€é€é€é€é€é€é€é€é€é€é€é€é€é€é€é€é€é€é€é€é€é€é€é€é€é€é€é€é€é€é€é€é€é€é€é€é€é€é€é€é€é€é€é€é€é€é€é€é€é€é€é€é€é€é€é€é€é€é€𐍈 "];

#[derive(Clone, Debug, PartialEq, Eq)]
pub enum RecArg {
    DoubleDash,
    Long(Vec<u8>),
    Short(u32),
    Value(Vec<u8>),
}

#[derive(Clone, Debug, PartialEq, Eq)]
pub enum OwnedParseError {
    MissingRequiredArgument(Vec<u8>),
    ParseValueError(Vec<u8>, Vec<u8>),
    UnexpectedArgument(Vec<u8>),
    UnexpectedLongOption(Vec<u8>),
    UnexpectedShortOption(u32),
    UnknownCommand,
    Other,
}

impl OwnedParseError {
    pub fn from(e: &ParseError<'_>) -> Self {
        match e {
            ParseError::MissingRequiredArgument { name } => Self::MissingRequiredArgument(name.as_bytes().to_vec()),
            ParseError::ParseValueError { value, expected } => {
                Self::ParseValueError(value.as_bytes().to_vec(), expected.as_bytes().to_vec())
            }
            ParseError::UnexpectedArgument { value } => Self::UnexpectedArgument(value.as_bytes().to_vec()),
            ParseError::UnexpectedLongOption { name } => Self::UnexpectedLongOption(name.as_bytes().to_vec()),
            ParseError::UnexpectedShortOption { name } => Self::UnexpectedShortOption(*name as u32),
            ParseError::UnknownCommand => Self::UnknownCommand,
            _ => Self::Other,
        }
    }
}

#[derive(Clone, Debug)]
pub struct Rec {
    pub name: Vec<u8>,
    pub args: Vec<RecArg>,
    /// result of the derived parser (if the set has one): Debug rendering or structured error
    pub parsed: Option<Result<String, OwnedParseError>>,
    /// index into the handler script that was played (None when parse failed)
    pub played: Option<usize>,
}

#[derive(Clone, Copy, Debug, PartialEq, Eq)]
pub enum WKind {
    Str,
    Ln,
    Ufmt,
    Fmt,
    /// text split in two halves passed as two format arguments
    Fmt2,
    /// every character as a `char` format argument of `uwrite!` (goes through `uWrite::write_char`)
    UfmtCh,
    /// every character as a `char` format argument of `write!` (goes through `fmt::Write::write_char`)
    FmtCh,
    /// `write!(w, "{:*<6}", text)`: padding is emitted character by character
    FmtPad,
    /// `write!(w, "{:?}", text)`: quotes and escapes are emitted character by character
    FmtDbg,
    /// `write_char` of both traits called directly, alternating
    Ch,
    /// `Writer::write_list_element(first half of the text, second half, width derived from the text)`: the width may be
    /// smaller than, equal to or larger than the name. The layout is the library's business (not pinned by any property)
    ListElem,
    /// `Writer::write_title(text)`
    Title,
}

impl WKind {
    /// written through `core::fmt::Write`, where the sink's error value cannot be seen by the application
    /// the library formats this output itself: only framing, not the bytes, can be judged
    pub fn unpinned(&self) -> bool {
        matches!(self, WKind::ListElem | WKind::Title)
    }
    pub fn is_core_fmt(&self) -> bool {
        matches!(self, WKind::Fmt | WKind::Fmt2 | WKind::FmtCh | WKind::FmtPad | WKind::FmtDbg | WKind::Ch)
    }
}

#[derive(Clone, Debug, PartialEq, Eq)]
pub struct WCall {
    pub kind: WKind,
    pub text: String,
}

impl WCall {
    /// what the application asked to be written (Ln adds its line feed)
    pub fn logical(&self) -> String {
        match self.kind {
            WKind::Ln => format!("{}\n", self.text),
            WKind::FmtPad => format!("{:*<6}", self.text),
            WKind::FmtDbg => format!("{:?}", self.text),
            // as the library lays it out today; only used where the layout does not matter (never compared byte for byte)
            WKind::ListElem => {
                let mid = self.text.chars().count() / 2;
                let a: String = self.text.chars().take(mid).collect();
                let b: String = self.text.chars().skip(mid).collect();
                format!("  {}  {}\n", a, b)
            }
            _ => self.text.clone(),
        }
    }
}

#[derive(Clone, Debug, Default)]
pub struct HAction {
    pub writes: Vec<WCall>,
    pub set_prompt: Option<usize>,
    /// return Err(WriteError(SinkErr(usize::MAX))) without the sink having failed
    pub fail: bool,
    /// after its writes the handler decides the line is wrong and returns Err(ParseError(UnknownCommand)): the library
    /// reports it as an `error:` line below whatever the handler wrote
    pub reject: bool,
}

pub type ParseFn = for<'a> fn(RawCommand<'a>) -> Result<String, ParseError<'a>>;

pub struct RecProc {
    pub log: Vec<Rec>,
    /// played cyclically by invocation number
    pub script: Vec<HAction>,
    pub invocations: usize,
    pub parse: Option<ParseFn>,
    /// how the application hands its handler to `process_byte`: 0 = a struct implementing `CommandProcessor` (this one);
    /// 1 = `RawCommand::processor(closure)` (the closure can only return sink errors: a parse / reject error of the script is
    /// not expressible and the session generators do not combine them); 2 = a plain function through the blanket
    /// `impl CommandProcessor for F: FnMut(..)`
    pub pform: u8,
}

thread_local! {
    static CUR_PROC: core::cell::Cell<*mut RecProc> = const { core::cell::Cell::new(core::ptr::null_mut()) };
}

/// handler form 2: a function item (closures cannot express the `for<'a>` link between the command and the error)
fn fn_handler<'a>(cli: &mut CliHandle<'_, MonSink, SinkErr>, raw: RawCommand<'a>) -> Result<(), ProcessError<'a, SinkErr>> {
    let p = CUR_PROC.with(|c| c.get());
    assert!(!p.is_null());
    // the pointer is set by Rig::byte for the duration of one process_byte call and nothing else touches the RecProc meanwhile
    unsafe { (*p).process(cli, raw) }
}

impl RecProc {
    pub fn new(script: Vec<HAction>, parse: Option<ParseFn>) -> Self {
        RecProc { log: Vec::new(), script, invocations: 0, parse, pform: 0 }
    }
}

/// One character through ufmt. The library's `Writer` does not override `uWrite::write_char`, so this runs the method
/// *provided by ufmt-write 0.1.0*, which builds its scratch buffer with `mem::uninitialized::<[u8; 4]>()`. Miri rejects that
/// as undefined behaviour inside ufmt-write (found by the C03 Miri stage, DESIGN.md 12.6): it is not one of the operations
/// C03 speaks about and not embedded-cli code, and Miri cannot continue past it, so under Miri the character travels as a
/// one-character `&str` instead. Every other build runs the real thing.
fn ufmt_char(w: &mut embedded_cli::writer::Writer<'_, MonSink, SinkErr>, ch: char, formatted: bool) -> Result<(), SinkErr> {
    if cfg!(miri) {
        let mut b = [0u8; 4];
        let s: &str = ch.encode_utf8(&mut b);
        ufmt::uwrite!(w, "{}", s)
    } else if formatted {
        ufmt::uwrite!(w, "{}", ch)
    } else {
        ufmt::uWrite::write_char(w, ch)
    }
}

pub fn do_writes(
    w: &mut embedded_cli::writer::Writer<'_, MonSink, SinkErr>,
    calls: &[WCall],
) -> Result<(), SinkErr> {
    for c in calls {
        match c.kind {
            WKind::Str => w.write_str(&c.text)?,
            WKind::Ln => w.writeln_str(&c.text)?,
            WKind::Ufmt => ufmt::uwrite!(w, "{}", c.text.as_str())?,
            WKind::Fmt => {
                if write!(w, "{}", c.text).is_err() {
                    return Err(SinkErr(usize::MAX - 1));
                }
            }
            WKind::UfmtCh => {
                for ch in c.text.chars() {
                    ufmt_char(w, ch, true)?;
                }
            }
            WKind::FmtCh => {
                for ch in c.text.chars() {
                    if write!(w, "{}", ch).is_err() {
                        return Err(SinkErr(usize::MAX - 1));
                    }
                }
            }
            WKind::FmtPad => {
                if write!(w, "{:*<6}", c.text).is_err() {
                    return Err(SinkErr(usize::MAX - 1));
                }
            }
            WKind::FmtDbg => {
                if write!(w, "{:?}", c.text).is_err() {
                    return Err(SinkErr(usize::MAX - 1));
                }
            }
            WKind::Ch => {
                for (i, ch) in c.text.chars().enumerate() {
                    if i % 2 == 0 {
                        ufmt_char(w, ch, false)?;
                    } else if core::fmt::Write::write_char(w, ch).is_err() {
                        return Err(SinkErr(usize::MAX - 1));
                    }
                }
            }
            WKind::ListElem => {
                let mid = c.text.chars().count() / 2;
                let a: String = c.text.chars().take(mid).collect();
                let b: String = c.text.chars().skip(mid).collect();
                // narrower than, equal to, wider than the name -- and far wider (tens / hundreds of columns of padding)
                let width = match c.text.len() % 5 {
                    0 => 40 + c.text.len() * 3,
                    1 => 300,
                    _ => (c.text.len() * 7) % 12,
                };
                w.write_list_element(&a, &b, width)?;
            }
            WKind::Title => w.write_title(&c.text)?,
            WKind::Fmt2 => {
                let mid = c.text.chars().count() / 2;
                let a: String = c.text.chars().take(mid).collect();
                let b: String = c.text.chars().skip(mid).collect();
                if write!(w, "{}{}", a, b).is_err() {
                    return Err(SinkErr(usize::MAX - 1));
                }
            }
        }
    }
    Ok(())
}

impl CommandProcessor<MonSink, SinkErr> for RecProc {
    fn process<'a>(
        &mut self,
        cli: &mut CliHandle<'_, MonSink, SinkErr>,
        raw: RawCommand<'a>,
    ) -> Result<(), ProcessError<'a, SinkErr>> {
        let mut rec = Rec { name: raw.name().as_bytes().to_vec(), args: Vec::new(), parsed: None, played: None };
        for a in raw.args().args() {
            rec.args.push(match a {
                Arg::DoubleDash => RecArg::DoubleDash,
                Arg::LongOption(n) => RecArg::Long(n.as_bytes().to_vec()),
                Arg::ShortOption(c) => RecArg::Short(c as u32),
                Arg::Value(v) => RecArg::Value(v.as_bytes().to_vec()),
            });
        }
        // ill-formed text handed out (C02's business, judged on this record by the monitors): do not run the derived
        // parser / Debug formatting on it -- core's str formatting may panic on it and hide what happened
        let wellformed = core::str::from_utf8(&rec.name).is_ok()
            && rec.args.iter().all(|a| match a {
                RecArg::Long(b) | RecArg::Value(b) => core::str::from_utf8(b).is_ok(),
                RecArg::Short(u) => char::from_u32(*u).is_some(),
                RecArg::DoubleDash => true,
            });
        if !wellformed {
            self.log.push(rec);
            return Ok(());
        }
        if let Some(parse) = self.parse {
            match parse(raw.clone()) {
                Ok(dbg) => rec.parsed = Some(Ok(dbg)),
                Err(e) => {
                    rec.parsed = Some(Err(OwnedParseError::from(&e)));
                    self.log.push(rec);
                    return Err(ProcessError::ParseError(e));
                }
            }
        }
        let idx = if self.script.is_empty() { None } else { Some(self.invocations % self.script.len()) };
        self.invocations += 1;
        rec.played = idx;
        self.log.push(rec);
        if let Some(i) = idx {
            let act = self.script[i].clone();
            if let Some(p) = act.set_prompt {
                cli.set_prompt(PROMPTS[p]);
            }
            do_writes(cli.writer(), &act.writes)?;
            if act.fail {
                return Err(ProcessError::WriteError(SinkErr(usize::MAX)));
            }
            if act.reject {
                return Err(ProcessError::ParseError(ParseError::UnknownCommand));
            }
        }
        Ok(())
    }
}

#[derive(Clone, Debug, PartialEq, Eq)]
pub struct EdState {
    pub line: Vec<u8>,
    pub valid: usize,
    pub cursor: usize,
    pub buflen: usize,
}

#[derive(Clone, Debug, PartialEq, Eq)]
pub struct HistRaw {
    pub used_bytes: Vec<u8>,
    pub used: usize,
    pub cursor: Option<usize>,
    pub buflen: usize,
}

pub struct Rig<'b, C: Autocomplete + Help> {
    pub cli: Cli<MonSink, SinkErr, &'b mut [u8], &'b mut [u8]>,
    pub sink: MonSink,
    pub proc: RecProc,
    _c: PhantomData<C>,
}

impl<'b, C: Autocomplete + Help> Rig<'b, C> {
    pub fn build(
        cmd: &'b mut [u8],
        hist: &'b mut [u8],
        prompt: usize,
        use_new: bool,
        sink: MonSink,
        proc: RecProc,
    ) -> Result<Self, SinkErr> {
        let cli = if use_new {
            #[allow(deprecated)]
            Cli::new(sink.clone(), cmd, hist)?
        } else {
            CliBuilder::default()
                .writer(sink.clone())
                .command_buffer(cmd)
                .history_buffer(hist)
                .prompt(PROMPTS[prompt])
                .build()?
        };
        Ok(Rig { cli, sink, proc, _c: PhantomData })
    }

    pub fn byte(&mut self, b: u8) -> Result<(), SinkErr> {
        self.byte_as::<C>(b)
    }

    /// the command set is a type parameter of each `process_byte` call, not of the Cli: an application may pass another one
    pub fn byte_set(&mut self, set: crate::sets::SetKind, b: u8) -> Result<(), SinkErr> {
        use crate::sets::SetKind;
        self.proc.parse = set.parse_fn();
        match set {
            SetKind::Raw => self.byte_as::<RawCommand<'static>>(b),
            SetKind::FixA => self.byte_as::<crate::sets::FixA<'static>>(b),
            SetKind::FixG => self.byte_as::<crate::sets::FixG<'static>>(b),
            SetKind::FixU => self.byte_as::<crate::sets::FixU<'static>>(b),
        }
    }

    pub fn byte_as<D: Autocomplete + Help>(&mut self, b: u8) -> Result<(), SinkErr> {
        match self.proc.pform & 0x0f {
            1 => {
                let p = &mut self.proc;
                let mut pr = RawCommand::processor(|cli: &mut CliHandle<'_, MonSink, SinkErr>, raw: RawCommand<'_>| match p.process(cli, raw) {
                    Ok(()) => Ok(()),
                    Err(ProcessError::WriteError(e)) => Err(e),
                    Err(ProcessError::ParseError(_)) => Ok(()),
                });
                self.cli.process_byte::<D, _>(b, &mut pr)
            }
            2 => {
                CUR_PROC.with(|c| c.set(&mut self.proc as *mut RecProc));
                let r = self.cli.process_byte::<D, _>(b, &mut fn_handler);
                CUR_PROC.with(|c| c.set(core::ptr::null_mut()));
                r
            }
            _ => self.cli.process_byte::<D, _>(b, &mut self.proc),
        }
    }

    pub fn write(&mut self, calls: &[WCall]) -> Result<(), SinkErr> {
        self.cli.write(|w| do_writes(w, calls))
    }

    pub fn set_prompt(&mut self, p: usize) -> Result<(), SinkErr> {
        self.cli.set_prompt(PROMPTS[p])
    }

    pub fn editor(&self) -> EdState {
        let (buf, valid, cursor) = self.cli.verif_editor().expect("editor present at quiescent point");
        EdState { line: buf[..valid.min(buf.len())].to_vec(), valid, cursor, buflen: buf.len() }
    }

    #[cfg(feature = "history")]
    pub fn history(&self) -> Option<HistRaw> {
        let (buf, used, cursor) = self.cli.verif_history();
        Some(HistRaw { used_bytes: buf[..used.min(buf.len())].to_vec(), used, cursor, buflen: buf.len() })
    }

    #[cfg(not(feature = "history"))]
    pub fn history(&self) -> Option<HistRaw> {
        None
    }

    pub fn prompt(&self) -> &'static str {
        self.cli.verif_prompt()
    }
}

/// Structural invariants of the hooked state. Returns (property-ish class, description).
pub fn check_invariants(ed: &EdState, hist: Option<&HistRaw>) -> Result<(), (&'static str, String)> {
    if ed.valid > ed.buflen {
        return Err(("bounds", format!("editor valid {} > buffer {}", ed.valid, ed.buflen)));
    }
    match core::str::from_utf8(&ed.line) {
        Err(_) => return Err(("utf8", format!("edited line is not UTF-8: {}", crate::json::show_bytes(&ed.line)))),
        Ok(s) => {
            if ed.line.iter().any(|&b| b < 0x20) {
                return Err(("ctl", format!("edited line holds a control byte: {}", crate::json::show_bytes(&ed.line))));
            }
            if ed.cursor > s.chars().count() {
                return Err(("cursor", format!("cursor {} beyond {} chars", ed.cursor, s.chars().count())));
            }
        }
    }
    if let Some(h) = hist {
        if h.used > h.buflen {
            return Err(("bounds", format!("history used {} > buffer {}", h.used, h.buflen)));
        }
        if h.used > 0 && h.used_bytes[h.used - 1] != 0 {
            return Err(("hist", "history does not end with NUL".to_string()));
        }
        let mut starts = vec![];
        let mut s = 0;
        for (i, &b) in h.used_bytes.iter().enumerate() {
            if b == 0 {
                if i == s {
                    return Err(("hist", "empty history entry".to_string()));
                }
                if core::str::from_utf8(&h.used_bytes[s..i]).is_err() {
                    return Err(("utf8", format!("history entry is not UTF-8: {}", crate::json::show_bytes(&h.used_bytes[s..i]))));
                }
                starts.push(s);
                s = i + 1;
            }
        }
        if let Some(c) = h.cursor {
            if !starts.contains(&c) {
                return Err(("hist", format!("history cursor {} is not an entry start", c)));
            }
        }
    }
    Ok(())
}

pub fn hist_entries(h: &HistRaw) -> Vec<Vec<u8>> {
    let mut out = Vec::new();
    let mut s = 0;
    for (i, &b) in h.used_bytes.iter().enumerate() {
        if b == 0 {
            out.push(h.used_bytes[s..i].to_vec());
            s = i + 1;
        }
    }
    out
}

/// a caller-provided buffer of `n` bytes with one of five initial contents (chosen by `salt`): 0xAA, zeroes, 0xFF, the remains of an
/// earlier session (lines separated by NULs, as a history buffer would hold them), ill-formed UTF-8
pub fn filled(n: usize, salt: usize) -> Box<[u8]> {
    let pat: &[u8] = match salt % 5 {
        0 => &[0xAA],
        1 => &[0x00],
        2 => &[0xFF],
        3 => b"help\0ab x\0\0b -h\0\xc3\xa9\0",
        _ => &[0xE2, 0x82, 0x00, 0x80, b'a', 0xF0],
    };
    (0..n).map(|i| pat[i % pat.len()]).collect::<Vec<u8>>().into_boxed_slice()
}
