//! Drivers that run generated declarations (compiled with the repository's macros) under the
//! C09 / C11 / C12 monitors. Linked into every generated batch binary.
use crate::declgen::*;
use crate::declref::*;
use crate::json::{show_bytes, J};
use crate::prng::{hash_u64s, Rng};
use crate::refmodel::*;
use crate::report::{Report, Violation};
use crate::rig::*;
use crate::runner::{guarded, install_crash_marker, install_panic_capture, panic_tag, CUR_CASE};
use crate::sink::MonSink;
use crate::term::Term;
use embedded_cli::service::{Autocomplete, Help};
use std::sync::atomic::Ordering;

pub type ViaProcessor = fn(&[u8], usize) -> (Vec<String>, Vec<u8>);

pub struct Ctx {
    pub rep: Report,
    pub decls: Vec<Decl>,
    pub mode: String,
    pub out: Option<String>,
    pub only: Option<usize>,
    pub verbose: bool,
    pub seed: u64,
    pub batch: usize,
    pub n_full: usize,
    pub n_names: usize,
    pub thorough: bool,
}

impl Ctx {
    pub fn from_args(seed: u64, batch: usize, n_full: usize, n_names: usize) -> Ctx {
        let argv: Vec<String> = std::env::args().collect();
        let mut c = Ctx {
            rep: Report::new(),
            decls: gen_batch(seed, batch, n_full, n_names),
            mode: "all".into(),
            out: None,
            only: None,
            verbose: false,
            seed,
            batch,
            n_full,
            n_names,
            thorough: false,
        };
        let mut i = 1;
        while i + 1 < argv.len() {
            match argv[i].as_str() {
                "--mode" => c.mode = argv[i + 1].clone(),
                "--out" => c.out = Some(argv[i + 1].clone()),
                "--only" => c.only = argv[i + 1].parse().ok(),
                "--verbose" => c.verbose = argv[i + 1] != "0",
                "--tier" => c.thorough = argv[i + 1] == "thorough",
                _ => {}
            }
            i += 2;
        }
        install_crash_marker();
        install_panic_capture();
        c
    }

    fn replay(&self, decl: usize, line: &str) -> J {
        J::obj()
            .set("kind", J::s("declbatch"))
            .set("seed", J::Int(self.seed as i64))
            .set("batch", J::Int(self.batch as i64))
            .set("n_full", J::Int(self.n_full as i64))
            .set("n_names", J::Int(self.n_names as i64))
            .set("decl", J::Int(decl as i64))
            .set("mode", J::s(&self.mode))
            .set("line", J::s(line))
    }

    fn found(&mut self, prop: &str, clause: &str, tag: &str, decl: usize, line: &str, detail: String) {
        if self.verbose {
            println!("FOUND property={} clause={} tag={} decl={}: {}", prop, clause, tag, decl, detail);
        }
        let replay = self.replay(decl, line);
        self.rep.violation(Violation { property: prop.into(), clause: clause.into(), tag: tag.into(), detail, replay, size: line.len() });
    }

    pub fn run<T: Autocomplete + Help>(&mut self, id: usize, parse: ParseFn, via: ViaProcessor) {
        if let Some(o) = self.only {
            if o != id {
                return;
            }
        }
        let d = self.decls[id].clone();
        CUR_CASE.store(id as u64, Ordering::Relaxed);
        self.rep.cases += 1;
        if self.verbose {
            println!("--- declaration {} ---\n{}", id, emit_decl(&d));
        }
        let mode = self.mode.clone();
        if (mode == "C09" || mode == "all") && d.flavour == "full" {
            self.run_c09::<T>(&d, parse, via);
        }
        if (mode == "C12" || mode == "all") && d.flavour == "full" && cfg!(feature = "help") {
            self.run_c12::<T>(&d, parse);
        }
        if (mode == "C11" || mode == "all") && cfg!(feature = "autocomplete") {
            self.run_c11::<T>(&d);
        }
        CUR_CASE.store(u64::MAX, Ordering::Relaxed);
    }

    pub fn finish(self) {
        let j = self.rep.to_json().set("workload", J::s(format!("declbatch-{}", self.mode))).set("shard", J::Int(self.batch as i64));
        let s = j.to_string();
        match &self.out {
            Some(p) => std::fs::write(p, s).expect("write result"),
            None => println!("{}", s),
        }
    }

    // ------------------------------------------------------------------ C09

    fn run_c09<T: Autocomplete + Help>(&mut self, d: &Decl, parse: ParseFn, via: ViaProcessor) {
        let mut rng = Rng::derive(self.seed ^ 0xC09, self.batch as u64, d.id as u64);
        let nlines = if self.thorough { 160 } else { 70 };
        let lines = gen_lines(d, &mut rng, nlines);
        for (line, kind) in lines {
            let toks_alts = ref_tokenize_set(&line);
            if toks_alts.len() != 1 || toks_alts[0].is_empty() {
                continue;
            }
            let toks = &toks_alts[0];
            let items = ref_classify(&toks[1..]);
            let (is_help, open) = help_shape(&toks[0], &items);
            if (is_help || open) && cfg!(feature = "help") {
                self.rep.count("c09.lines.help_shaped_skipped");
                continue;
            }
            let expect = interp_top(d, &toks[0], &toks[1..]);
            self.rep.count(&format!("c09.lines.{}", kind));
            self.rep.distinct.insert(hash_u64s(&[9, d.id as u64 + 1000 * self.batch as u64, line_shape(toks), expect_class(&expect)]));
            self.rep.sample(line.len(), || J::obj().set("declaration", J::Int(d.id as i64)).set("line", J::s(&line)).set("expected", J::s(format!("{:?}", expect_short(&expect)))));
            let r = guarded(|| c09_through_cli::<T>(&line, parse, via));
            let obs = match r {
                Ok(o) => o,
                Err(msg) => {
                    self.found("C09", "crash", &panic_tag(&msg), d.id, &line, format!("declaration {} line {:?}: panic: {}", d.id, line, msg));
                    continue;
                }
            };
            self.rep.evaluations += 1;
            self.judge_c09(d, &line, toks, &expect, &obs);
        }
    }

    fn judge_c09(&mut self, d: &Decl, line: &str, toks: &[String], expect: &Expect, obs: &C09Obs) {
        let vshape = variant_shape(d, &toks[0]);
        let ctx = format!("declaration {} ({}), line {:?}", d.id, vshape, line);
        match expect {
            Expect::Unspecified(why) => {
                self.rep.count(&format!("c09.unspecified:{}", why));
            }
            Expect::Ok(val) => {
                self.rep.count("c09.expected_ok");
                let want = val.render();
                let is_catch = matches!(val, Val::RawCatchAll { .. });
                match &obs.parsed {
                    Some(Ok(got)) if got == &want || (is_catch && got.starts_with(&want)) => {
                        if !obs.handler_ran {
                            self.found("C09", "handler-not-called", vshape, d.id, line, format!("{}: parsed {} but the handler did not run", ctx, got));
                        }
                    }
                    Some(Ok(got)) => {
                        let tag = format!("wrong-value-{}", diff_kind(&want, got));
                        self.found("C09", "parse-result", &tag, d.id, line, format!("{}: parsed as {}, the declaration says {}", ctx, got, want));
                    }
                    Some(Err(e)) => {
                        self.found("C09", "parse-result", &format!("rejected-valid-line-{}", err_kind(e)), d.id, line, format!("{}: rejected with {:?}, the declaration says {}", ctx, show_err(e), want));
                    }
                    None => self.found("C09", "parse-result", "not-dispatched", d.id, line, format!("{}: the command processor was not called", ctx)),
                }
                // the generated processor() wrapper must agree
                if !is_catch && !(obs.via_handled.len() == 1 && obs.via_handled[0] == want) {
                    if matches!(&obs.parsed, Some(Ok(g)) if g == &want) {
                        self.found("C09", "processor-wrapper", "wrapper-disagrees", d.id, line, format!("{}: T::processor handler received {:?}, expected [{}]", ctx, obs.via_handled, want));
                    }
                }
            }
            Expect::Err(allowed) => {
                self.rep.count("c09.expected_error");
                match &obs.parsed {
                    Some(Err(e)) => {
                        if !allowed.iter().any(|a| err_matches(a, e)) {
                            self.found("C09", "parse-error", &format!("wrong-error-{}-for-{}", err_kind(e), perr_kind(&allowed[0])), d.id, line, format!("{}: reported {:?}, the first offending item is {:?}", ctx, show_err(e), allowed));
                        } else {
                            self.rep.count(&format!("c09.error.{}", err_kind(e)));
                            if obs.handler_ran {
                                self.found("C09", "handler-called-on-error", vshape, d.id, line, format!("{}: handler ran although parsing failed", ctx));
                            }
                            // exactly one `error:` line carrying the payload
                            let payload = err_payload(e);
                            let ok = obs.out_rows.len() == 1 && obs.out_rows[0].starts_with("error:") && payload.iter().all(|p| obs.out_rows[0].contains(p.as_str()) || obs.out_rows[0].ends_with(p.trim_end_matches(' '))); // rows are compared without trailing blanks (C06): a payload ending in blanks can only be seen up to them
                            if !ok {
                                self.found("C09", "error-line", err_kind(e), d.id, line, format!("{}: output between the line and the next prompt is {:?}; expected a single `error:` line containing {:?}", ctx, obs.out_rows, payload));
                            }
                            if !obs.via_handled.is_empty() {
                                self.found("C09", "processor-wrapper", "wrapper-called-handler-on-error", d.id, line, format!("{}: T::processor handler received {:?}", ctx, obs.via_handled));
                            }
                        }
                    }
                    Some(Ok(got)) => {
                        let tag = if vshape == "unit" { "unit-variant-accepts-arguments".to_string() } else { format!("accepted-invalid-line-{}", perr_kind(&allowed[0])) };
                        self.found("C09", "parse-error", &tag, d.id, line, format!("{}: accepted as {}, but the line does not fit: {:?}", ctx, got, allowed));
                    }
                    None => self.found("C09", "parse-result", "not-dispatched", d.id, line, format!("{}: the command processor was not called", ctx)),
                }
            }
        }
    }

    // ------------------------------------------------------------------ C12

    fn run_c12<T: Autocomplete + Help>(&mut self, d: &Decl, parse: ParseFn) {
        let mut rng = Rng::derive(self.seed ^ 0xC12, self.batch as u64, d.id as u64);
        let cases = gen_help_lines(d, &mut rng, if self.thorough { 4 } else { 2 });
        for mut hc in cases {
            if let About::AsParsed(plain) = &hc.about {
                let plain = plain.clone();
                let parsed = guarded(|| parse_through_cli::<T>(&plain, parse));
                let q = match parsed {
                    Ok(Some(Ok(dbg))) => path_from_debug(d, &dbg),
                    _ => None,
                };
                match q {
                    Some(q) => {
                        if q.len() >= 2 {
                            self.rep.count("c12.as_parsed.nested");
                        }
                        hc.about = if resolve_path(d, &q).is_some() { About::Path(q) } else { About::Unknown };
                    }
                    None => {
                        self.rep.count("c12.as_parsed.parser_gives_no_path");
                        continue;
                    }
                }
            }
            self.rep.count(&format!("c12.lines.{}", hc.kind));
            self.rep.distinct.insert(hash_u64s(&[12, d.id as u64 + 1000 * self.batch as u64, crate::prng::hash_bytes(0, hc.line.as_bytes())]));
            self.rep.sample(hc.line.len(), || J::obj().set("declaration", J::Int(d.id as i64)).set("line", J::s(&hc.line)).set("asks_about", J::s(format!("{:?}", hc.about))));
            let line = hc.line.clone();
            let r = guarded(|| help_through_cli::<T>(&line, parse));
            let (rows, dispatched) = match r {
                Ok(x) => x,
                Err(msg) => {
                    self.found("C12", "crash", &panic_tag(&msg), d.id, &hc.line, format!("declaration {} line {:?}: panic: {}", d.id, hc.line, msg));
                    continue;
                }
            };
            self.rep.evaluations += 1;
            let ctx = format!("declaration {}, line {:?}", d.id, hc.line);
            if matches!(hc.about, About::NotHelp) {
                if dispatched != 1 {
                    self.found("C12", "non-help-line-intercepted", hc.kind, d.id, &hc.line, format!("{}: not a help request (help option only counts before `--`, exact spellings only) but the command processor was called {} time(s); output {:?}", ctx, dispatched, rows));
                }
                continue;
            }
            if dispatched > 0 {
                self.found("C12", "help-reached-handler", hc.kind, d.id, &hc.line, format!("{}: the command processor was called {} time(s)", ctx, dispatched));
                continue;
            }
            let fails = judge_help(d, &hc, &rows);
            for (clause, tag, what) in fails {
                self.found("C12", clause, &tag, d.id, &hc.line, format!("{}: {} ; output rows: {:?}", ctx, what, rows));
            }
        }
    }

    // ------------------------------------------------------------------ C11

    fn run_c11<T: Autocomplete + Help>(&mut self, d: &Decl) {
        let names = d.visible_names();
        let mut names_help = names.clone();
        names_help.push("help".into());
        let mut rng = Rng::derive(self.seed ^ 0xC11, self.batch as u64, d.id as u64);
        // words: every prefix of every name (hidden ones too: they must not complete), non-matching ones
        let mut words: Vec<String> = vec![];
        for n in names_help.iter().chain(hidden_names(d).iter()) {
            let cs: Vec<char> = n.chars().collect();
            for k in 1..=cs.len() {
                let w: String = cs[..k].iter().collect();
                if !words.contains(&w) {
                    words.push(w);
                }
            }
        }
        words.push("zq".into());
        words.push("é".into());
        words.push("hx".into());
        let max_words = if self.thorough { 80 } else { 36 };
        while words.len() > max_words {
            let i = rng.below(words.len());
            words.remove(i);
        }
        for w in &words {
            for (variant, line) in [("plain", w.clone()), ("leading-blanks", format!("  {}", w)), ("trailing-blank", format!("{} ", w)), ("trailing-blanks", format!(" {}  ", w)), ("argument-started", format!("{} x", w))] {
                let nchars = line.chars().count();
                let cont_len = {
                    let (allowed, _, _) = ref_complete(&line, false, &names_help, 1000);
                    allowed.iter().map(|a| a.len()).max().unwrap_or(line.len()).saturating_sub(line.len())
                };
                let mut caps: Vec<usize> = vec![line.len(), line.len() + cont_len.saturating_sub(1), line.len() + cont_len, line.len() + cont_len + 1, 64.max(line.len() + cont_len + 8)];
                if cont_len > 2 {
                    caps.push(line.len() + 1);
                    caps.push(line.len() + cont_len / 2);
                }
                caps.sort_unstable();
                caps.dedup();
                for &cap in &caps {
                    let mut cursors: Vec<usize> = if variant == "plain" || variant == "trailing-blanks" { (0..=nchars).collect() } else { vec![nchars, nchars.saturating_sub(1)] };
                    if cursors.len() > 24 {
                        // a very long word: both ends, the middle and a few positions in between
                        let mut keep: Vec<usize> = vec![0, 1, 2, nchars / 2, nchars - 2, nchars - 1, nchars];
                        for _ in 0..6 {
                            keep.push(rng.below(nchars + 1));
                        }
                        keep.sort_unstable();
                        keep.dedup();
                        cursors = keep;
                    }
                    for cur in cursors {
                        let left = nchars - cur;
                        let l2 = line.clone();
                        let r = guarded(|| tab_through_cli::<T>(&l2, left, cap));
                        let (post, term_ok) = match r {
                            Ok(x) => x,
                            Err(msg) => {
                                self.found("C11", "crash", &panic_tag(&msg), d.id, &line, format!("declaration {} line {:?} cursor {} capacity {}: panic: {}", d.id, line, cur, cap, msg));
                                continue;
                            }
                        };
                        self.rep.evaluations += 1;
                        let inside = cur < nchars;
                        let (mut allowed, class, nmatch) = ref_complete(&line, inside, &names_help, cap);
                        if !cfg!(feature = "help") {
                            for a in ref_complete(&line, inside, &names, cap).0 {
                                if !allowed.contains(&a) {
                                    allowed.push(a);
                                }
                            }
                        }
                        self.rep.distinct.insert(hash_u64s(&[11, d.id as u64 + 1000 * self.batch as u64, crate::prng::hash_bytes(0, w.as_bytes()), inside as u64, class.clone() as u64, (cap - line.len()).min(9) as u64, crate::prng::hash_bytes(1, variant.as_bytes())]));
                        if post != line {
                            self.rep.count("c11.gen.completed");
                        } else {
                            self.rep.count("c11.gen.unchanged");
                        }
                        self.rep.count(&format!("c11.gen.fit.{:?}", class));
                        self.rep.sample(line.len() + cap, || J::obj().set("declaration", J::Int(d.id as i64)).set("names", J::Arr(names.iter().map(J::s).collect())).set("line", J::s(&line)).set("cursor", J::Int(cur as i64)).set("capacity", J::Int(cap as i64)).set("after_tab", J::s(&post)));
                        if !allowed.contains(&post) {
                            let tag = format!("{:?}-{}-{}", class, nmatch.min(2), variant);
                            self.found("C11", "completion", &tag, d.id, &line, format!("declaration {} names {:?}: Tab on {:?} (cursor {}, capacity {}) gives {:?}; allowed {:?}", d.id, names, line, cur, cap, post, allowed));
                        }
                        if !post.starts_with(line.trim_end_matches(' ')) || post.len() > cap {
                            self.found("C11", "altered-typed-text", "prefix-or-capacity", d.id, &line, format!("declaration {}: Tab turned {:?} into {:?} (capacity {})", d.id, line, post, cap));
                        }
                        if !term_ok.0 {
                            self.found("C11", "display-after-tab", "terminal", d.id, &line, format!("declaration {}: after Tab on {:?} (cursor {}, capacity {}) the terminal shows {:?} col {}, the line is {:?}", d.id, line, cur, cap, term_ok.1, term_ok.2, post));
                        }
                    }
                }
            }
        }
    }
}

// ------------------------------------------------------------------ C09 helpers

pub struct C09Obs {
    pub parsed: Option<Result<String, OwnedParseError>>,
    pub handler_ran: bool,
    /// rows between the submitted line and the next prompt
    pub out_rows: Vec<String>,
    pub via_handled: Vec<String>,
}

fn rows_between(bytes: &[u8]) -> Vec<String> {
    // bytes of the Enter call: CR LF, output, prompt. Rows strictly between the first and the last.
    let mut t = Term::new();
    t.feed(bytes);
    let rows = t.all_rows_trimmed();
    if rows.len() <= 2 {
        return vec![];
    }
    rows[1..rows.len() - 1].to_vec()
}

fn c09_through_cli<T: Autocomplete + Help>(line: &str, parse: ParseFn, via: ViaProcessor) -> C09Obs {
    let cap = line.len() + 8;
    let mut cmd = vec![0u8; cap].into_boxed_slice();
    let mut hist = vec![0u8; 0].into_boxed_slice();
    let sink = MonSink::new();
    let script = vec![HAction { writes: vec![], set_prompt: None, fail: false, reject: false }];
    let mut rig: Rig<'_, T> = Rig::build(&mut cmd, &mut hist, 0, false, sink.clone(), RecProc::new(script, Some(parse))).expect("build");
    for &b in line.as_bytes() {
        rig.byte(b).expect("sink never fails");
    }
    let mark = sink.0.borrow().bytes.len();
    rig.byte(b'\r').expect("sink never fails");
    let out = sink.0.borrow().bytes[mark..].to_vec();
    let rec = rig.proc.log.first().cloned();
    let mut l2 = line.as_bytes().to_vec();
    l2.push(b'\r');
    let (via_handled, _via_bytes) = via(&l2, cap);
    C09Obs {
        parsed: rec.as_ref().and_then(|r| r.parsed.clone()),
        handler_ran: rec.as_ref().map(|r| r.played.is_some()).unwrap_or(false),
        out_rows: rows_between(&out),
        via_handled,
    }
}

fn show_err(e: &OwnedParseError) -> String {
    match e {
        OwnedParseError::MissingRequiredArgument(n) => format!("MissingRequiredArgument({})", show_bytes(n)),
        OwnedParseError::ParseValueError(v, x) => format!("ParseValueError(value {:?}, expected {})", show_bytes(v), show_bytes(x)),
        OwnedParseError::UnexpectedArgument(v) => format!("UnexpectedArgument({:?})", show_bytes(v)),
        OwnedParseError::UnexpectedLongOption(v) => format!("UnexpectedLongOption(--{})", show_bytes(v)),
        OwnedParseError::UnexpectedShortOption(c) => format!("UnexpectedShortOption(-{})", char::from_u32(*c).unwrap_or('?')),
        OwnedParseError::UnknownCommand => "UnknownCommand".into(),
        OwnedParseError::Other => "Other".into(),
    }
}

fn err_kind(e: &OwnedParseError) -> &'static str {
    match e {
        OwnedParseError::MissingRequiredArgument(_) => "missing-argument",
        OwnedParseError::ParseValueError(..) => "parse-value",
        OwnedParseError::UnexpectedArgument(_) => "unexpected-argument",
        OwnedParseError::UnexpectedLongOption(_) => "unexpected-long",
        OwnedParseError::UnexpectedShortOption(_) => "unexpected-short",
        OwnedParseError::UnknownCommand => "unknown-command",
        OwnedParseError::Other => "other",
    }
}

fn perr_kind(e: &PErr) -> &'static str {
    match e {
        PErr::Missing(_) => "missing-argument",
        PErr::ParseValue { .. } => "parse-value",
        PErr::UnexpectedArgument(_) => "unexpected-argument",
        PErr::UnexpectedLong(_) => "unexpected-long",
        PErr::UnexpectedShort(_) => "unexpected-short",
        PErr::UnknownCommand => "unknown-command",
    }
}

fn err_matches(want: &PErr, got: &OwnedParseError) -> bool {
    match (want, got) {
        (PErr::UnknownCommand, OwnedParseError::UnknownCommand) => true,
        (PErr::Missing(n), OwnedParseError::MissingRequiredArgument(g)) => n.as_bytes() == g.as_slice(),
        (PErr::ParseValue { value, expected }, OwnedParseError::ParseValueError(v, x)) => value.as_bytes() == v.as_slice() && expected.as_bytes() == x.as_slice(),
        (PErr::UnexpectedArgument(a), OwnedParseError::UnexpectedArgument(g)) => a.as_bytes() == g.as_slice(),
        (PErr::UnexpectedLong(a), OwnedParseError::UnexpectedLongOption(g)) => a.as_bytes() == g.as_slice(),
        (PErr::UnexpectedShort(c), OwnedParseError::UnexpectedShortOption(g)) => *c as u32 == *g,
        _ => false,
    }
}

fn err_payload(e: &OwnedParseError) -> Vec<String> {
    let s = |b: &Vec<u8>| String::from_utf8_lossy(b).to_string();
    match e {
        OwnedParseError::MissingRequiredArgument(n) => vec![s(n)],
        OwnedParseError::ParseValueError(v, x) => vec![s(v), s(x)],
        OwnedParseError::UnexpectedArgument(v) => vec![s(v)],
        OwnedParseError::UnexpectedLongOption(v) => vec![format!("--{}", s(v))],
        OwnedParseError::UnexpectedShortOption(c) => vec![format!("-{}", char::from_u32(*c).unwrap_or('?'))],
        OwnedParseError::UnknownCommand => vec!["unknown command".into()],
        OwnedParseError::Other => vec![],
    }
}

fn expect_class(e: &Expect) -> u64 {
    match e {
        Expect::Ok(_) => 0,
        Expect::Unspecified(_) => 1,
        Expect::Err(v) => match &v[0] {
            PErr::UnknownCommand => 2,
            PErr::UnexpectedArgument(_) => 3,
            PErr::UnexpectedLong(_) => 4,
            PErr::UnexpectedShort(_) => 5,
            PErr::ParseValue { .. } => 6,
            PErr::Missing(_) => 7,
        },
    }
}

fn expect_short(e: &Expect) -> String {
    match e {
        Expect::Ok(v) => v.render(),
        Expect::Err(v) => format!("error {:?}", v),
        Expect::Unspecified(w) => format!("unspecified: {}", w),
    }
}

fn line_shape(toks: &[String]) -> u64 {
    let v: Vec<u64> = ref_classify(&toks[1..])
        .iter()
        .map(|i| match i {
            Item::DoubleDash => 0,
            Item::Long(_) => 1,
            Item::Short(_) => 2,
            Item::Value(v) if v.is_empty() => 3,
            Item::Value(_) => 4,
        })
        .collect();
    hash_u64s(&v)
}

fn variant_shape(d: &Decl, name: &str) -> &'static str {
    for (m, _, _) in d.top_members() {
        if let Member::Enum(i) = m {
            if let Some(v) = d.enums[i].variants.iter().find(|v| v.name == name) {
                return if v.is_unit() {
                    "unit"
                } else if v.is_tuple() {
                    "tuple"
                } else if v.sub.is_some() {
                    "struct+sub"
                } else {
                    "struct"
                };
            }
        }
    }
    "unknown-name"
}

fn diff_kind(want: &str, got: &str) -> &'static str {
    if want.split('{').next() != got.split('{').next() && want.split('(').next() != got.split('(').next() {
        "variant"
    } else if want.matches("None").count() != got.matches("None").count() {
        "presence"
    } else {
        "field"
    }
}

// ------------------------------------------------------------------ line generation (C09)

/// texts near the edge of what the canonical parsers accept, for any field type: whether a given one is valid for a given type is
/// decided by that type's `str::parse` in the reference interpreter, never assumed here
const TRICKY: [&str; 34] = [
    "-0", "+0", "00", "1_000", "\u{661}\u{662}\u{663}", "\u{ff11}\u{ff12}", " 1", "1 ", "0x10", "1e3", "+-1", "infinity", "-inf", "NaN", "1e400", "1e-400", "0.1e1",
    "1f32", "TRUE", "false ", "0", "+", "-", "1.0", "0b1", "1e+2", "\u{221e}", "9999999999999999999999999999999999999999999", "-9999999999999999999999999999999999999999999",
    "t", "e\u{301}", "\u{1F600}", "١", "+1.5e-3",
];

fn gen_value(rng: &mut Rng, ty: Ty, after_dd: bool) -> String {
    let s = if rng.chance(12) && !matches!(ty, Ty::Str | Ty::Tag | Ty::Hex) {
        TRICKY[rng.below(TRICKY.len())].to_string()
    } else {
        gen_value_plain(rng, ty)
    };
    if s.starts_with('-') && s.len() > 1 && !after_dd {
        // a leading dash would be read as an option: keep such values for after `--`
        return match ty {
            Ty::Str => "plain".into(),
            Ty::Char => "x".into(),
            _ => "0".into(),
        };
    }
    s
}

fn gen_value_plain(rng: &mut Rng, ty: Ty) -> String {
    let pick = |rng: &mut Rng, v: &[&str]| v[rng.below(v.len())].to_string();
    match ty {
        Ty::U8 => pick(rng, &["0", "255", "7", "+5", "007"]),
        Ty::U16 => pick(rng, &["0", "65535", "300"]),
        Ty::U32 => pick(rng, &["0", "4294967295", "12"]),
        Ty::U64 => pick(rng, &["0", "18446744073709551615", "99"]),
        Ty::U128 => pick(rng, &["0", "340282366920938463463374607431768211455", "5"]),
        Ty::Usize => pick(rng, &["0", "18446744073709551615", "64"]),
        Ty::I8 => pick(rng, &["0", "127", "+9", "-128", "-1"]),
        Ty::I16 => pick(rng, &["0", "32767", "-32768", "-7"]),
        Ty::I32 => pick(rng, &["0", "2147483647", "-2147483648", "13"]),
        Ty::I64 => pick(rng, &["0", "9223372036854775807", "-9223372036854775808"]),
        Ty::I128 => pick(rng, &["0", "170141183460469231731687303715884105727", "-5"]),
        Ty::Isize => pick(rng, &["0", "9223372036854775807", "-2"]),
        Ty::F32 | Ty::F64 => pick(rng, &["0", "1.5", "1e3", "nan", "inf", ".5", "5.", "-0.25", "+2.5", "1E-2"]),
        Ty::Bool => pick(rng, &["true", "false"]),
        Ty::Char => pick(rng, &["x", "é", "€", "𐍈", " ", "\"", "7", "-"]),
        Ty::Str => pick(rng, &["plain", "two words", "", "é€𐍈", "q\"uote", "back\\slash", "-dash", "--", "  lead", "a=b", "help"]),
        Ty::Hex => pick(rng, &["0x0", "0xff", "0xFFFFFFFF", "0x1f", "0x00000001"]),
        Ty::Tag => pick(rng, &["#a", "#two words", "#é€𐍈", "##", "#-x", "#help"]),
    }
}

fn bad_value(rng: &mut Rng, ty: Ty) -> String {
    let pick = |rng: &mut Rng, v: &[&str]| v[rng.below(v.len())].to_string();
    if rng.chance(25) && !matches!(ty, Ty::Str) {
        let t = TRICKY[rng.below(TRICKY.len())];
        if !(t.starts_with('-') && t.len() > 1) {
            return t.to_string();
        }
    }
    match ty {
        Ty::U8 => pick(rng, &["256", "abc", "", "1.5", "0x10", " 1"]),
        Ty::I8 => pick(rng, &["128", "abc", "", "1e1"]),
        Ty::Bool => pick(rng, &["tru", "1", "", "True", "yes"]),
        Ty::Char => pick(rng, &["ab", "", "éé"]),
        Ty::F32 | Ty::F64 => pick(rng, &["abc", "", "1,5", "1e"]),
        Ty::Str => "plain".into(),
        Ty::U16 => pick(rng, &["65536", "x"]),
        Ty::U32 => pick(rng, &["4294967296", "x1"]),
        Ty::U64 | Ty::Usize => pick(rng, &["18446744073709551616", "z"]),
        Ty::U128 => pick(rng, &["340282366920938463463374607431768211456", "q"]),
        Ty::I16 => pick(rng, &["32768", "y"]),
        Ty::I32 => pick(rng, &["2147483648", "1_000"]),
        Ty::I64 | Ty::Isize => pick(rng, &["9223372036854775808", "w"]),
        Ty::I128 => pick(rng, &["170141183460469231731687303715884105728", "v"]),
        Ty::Hex => pick(rng, &["ff", "0x", "0xg1", "0x100000000", "255", "0X1F", ""]),
        Ty::Tag => pick(rng, &["a", "#", "", "x#y"]),
    }
}

/// tokens of a valid invocation of variant `v` (recursively through sub-commands)
fn gen_valid_tokens(d: &Decl, v: &VariantSpec, rng: &mut Rng, bad: bool) -> Vec<String> {
    let mut toks = vec![v.name.clone()];
    // option groups (each a Vec of tokens) and positional values
    let mut groups: Vec<Vec<String>> = vec![];
    let mut flags_short: Vec<char> = vec![];
    let mut bad_left = bad;
    for f in &v.fields {
        if let FieldKind::Named { long, short, .. } = &f.kind {
            let required = !f.optional && f.default.is_none() && !f.is_flag();
            if !(required || rng.chance(55)) {
                continue;
            }
            let use_short = short.is_some() && (long.is_none() || rng.chance(50));
            let spelled = if use_short { format!("-{}", short.unwrap()) } else { format!("--{}", long.clone().unwrap()) };
            if f.is_flag() {
                if use_short && rng.chance(50) {
                    flags_short.push(short.unwrap());
                } else {
                    groups.push(vec![spelled]);
                }
            } else {
                let val = if bad_left && f.ty != Ty::Str && rng.chance(50) {
                    bad_left = false;
                    bad_value(rng, f.ty)
                } else {
                    gen_value(rng, f.ty, false)
                };
                groups.push(vec![spelled, val]);
            }
        }
    }
    if !flags_short.is_empty() {
        // a cluster of flags, e.g. -vq
        groups.push(vec![format!("-{}", flags_short.iter().collect::<String>())]);
    }
    // shuffle option groups
    for i in (1..groups.len()).rev() {
        let j = rng.below(i + 1);
        groups.swap(i, j);
    }
    if let Some(s) = &v.sub {
        for g in groups {
            toks.extend(g);
        }
        if !s.optional || rng.chance(65) {
            let se = &d.enums[s.enum_idx];
            let sv = &se.variants[rng.below(se.variants.len())];
            toks.extend(gen_valid_tokens(d, sv, rng, bad_left));
        }
        return toks;
    }
    // positionals: a prefix of them (all required ones)
    let pos: Vec<&FieldSpec> = v.fields.iter().filter(|f| f.is_positional()).collect();
    let mut npos = 0;
    for (i, f) in pos.iter().enumerate() {
        let required = !f.optional && f.default.is_none();
        if required || rng.chance(60) {
            npos = i + 1;
        } else if !pos[i + 1..].iter().any(|g| !g.optional && g.default.is_none()) {
            break;
        } else {
            npos = i + 1;
        }
    }
    // interleave: positionals keep their order; with a `--` every option comes before it
    let use_dd = npos > 0 && rng.chance(30);
    let dd_at = if use_dd { rng.below(npos) } else { usize::MAX };
    let mut gi = 0;
    for (i, f) in pos.iter().take(npos).enumerate() {
        if i == dd_at {
            while gi < groups.len() {
                toks.extend(groups[gi].clone());
                gi += 1;
            }
            toks.push("--".into());
        } else if i < dd_at {
            while gi < groups.len() && rng.chance(40) {
                toks.extend(groups[gi].clone());
                gi += 1;
            }
        }
        let val = if bad_left && f.ty != Ty::Str && rng.chance(60) {
            bad_left = false;
            bad_value(rng, f.ty)
        } else {
            gen_value(rng, f.ty, i >= dd_at)
        };
        toks.push(val);
    }
    while gi < groups.len() {
        if use_dd {
            // no options after `--`: put the rest right after the command name
            for (k, t) in groups[gi].clone().into_iter().enumerate() {
                toks.insert(1 + k, t);
            }
        } else {
            toks.extend(groups[gi].clone());
        }
        gi += 1;
    }
    toks
}

pub fn render_tokens(toks: &[String], rng: &mut Rng) -> String {
    let mut s = String::new();
    for (i, t) in toks.iter().enumerate() {
        if i > 0 {
            s.push(' ');
            if rng.chance(10) {
                s.push(' ');
            }
        }
        if needs_quoting(t) || rng.chance(10) {
            s.push_str(&quote_token(t));
        } else {
            s.push_str(t);
        }
    }
    s
}

fn all_top_variants(d: &Decl) -> Vec<&VariantSpec> {
    let mut v = vec![];
    for (m, _, _) in d.top_members() {
        if let Member::Enum(i) = m {
            v.extend(d.enums[i].variants.iter());
        }
    }
    v
}

/// valid lines and mutants; the oracle computes the expectation for whatever comes out
pub fn gen_lines(d: &Decl, rng: &mut Rng, n: usize) -> Vec<(String, &'static str)> {
    let tops = all_top_variants(d);
    let mut out: Vec<(String, &'static str)> = vec![];
    if tops.is_empty() {
        return out;
    }
    for k in 0..n {
        let v = tops[k % tops.len()];
        let toks = gen_valid_tokens(d, v, rng, false);
        if k % 7 == 6 {
            // several independent faults in one line: the first offending item (left to right) must be the one reported
            let with_bad = rng.chance(60);
            let mut t = gen_valid_tokens(d, v, rng, with_bad);
            for _ in 0..rng.range(2, 3) {
                match rng.below(4) {
                    0 => {
                        let junk = rng.pick(&["extra", "--nope", "-Z", "--bogus", "surplus", "-é"]).to_string();
                        let at = rng.range(1, t.len());
                        t.insert(at, junk);
                    }
                    1 if t.len() > 2 => {
                        let at = rng.range(1, t.len() - 1);
                        t.remove(at);
                    }
                    2 => t.push(rng.pick(&["extra", "--bogus", "-Z"]).to_string()),
                    _ if t.len() < 2 => t.push("surplus".to_string()),
                    _ => {
                        // spoil a value in place
                        let at = rng.range(1, t.len() - 1);
                        if !t[at].starts_with('-') {
                            t[at] = rng.pick(&["many", "1x", "", "99999999999999999999999999999999999999999"]).to_string();
                        }
                    }
                }
            }
            out.push((render_tokens(&t, rng), "multi-fault"));
            continue;
        }
        match rng.below(10) {
            0..=3 => out.push((render_tokens(&toks, rng), "valid")),
            4 => {
                let t = gen_valid_tokens(d, v, rng, true);
                out.push((render_tokens(&t, rng), "bad-value"));
            }
            5 => {
                // surplus value / unknown option somewhere
                let mut t = toks.clone();
                for _ in 0..rng.range(1, 3) {
                    let mut junk = rng.pick(&["extra", "--nope", "-Z", "-é", "--", "", "-", "--dry-run", "--nocache", "--help", "-h", "q\"uo te", "--é€𐍈", "-𐍈", "'", "x=y", "LONG", "--LONG"]).to_string();
                    if junk.ends_with("LONG") {
                        // payloads of a few hundred bytes in the error line
                        junk = junk.replace("LONG", &"surplus-é".repeat(rng.range(30, 60)));
                    }
                    let at = rng.range(1, t.len());
                    t.insert(at, junk);
                }
                out.push((render_tokens(&t, rng), "inserted-token"));
            }
            6 => {
                // one token removed
                let mut t = toks.clone();
                if t.len() > 1 {
                    let at = rng.range(1, t.len() - 1);
                    t.remove(at);
                }
                out.push((render_tokens(&t, rng), "removed-token"));
            }
            7 => {
                let mut t = toks.clone();
                t[0] = rng.pick(&["zz9", "nope", "Help", "hel"]).to_string();
                out.push((render_tokens(&t, rng), "unknown-command"));
            }
            8 => {
                // only the command name, or the name with up to three arbitrary tokens
                let mut t = vec![v.name.clone()];
                for _ in 0..rng.below(4) {
                    t.push(rng.pick(&["x", "--nope", "1", "-q", "zz9", "--", "", "-", "-- ", "now", "-é"]).trim_end().to_string());
                }
                out.push((render_tokens(&t, rng), "bare-name"));
            }
            _ => {
                // two tokens swapped / one duplicated
                let mut t = toks.clone();
                if t.len() > 2 {
                    let a = rng.range(1, t.len() - 1);
                    let b = rng.range(1, t.len() - 1);
                    if rng.chance(50) {
                        t.swap(a, b);
                    } else {
                        let x = t[a].clone();
                        t.insert(b, x);
                    }
                }
                out.push((render_tokens(&t, rng), "shuffled"));
            }
        }
    }
    out
}

// ------------------------------------------------------------------ C12 helpers

#[derive(Clone, Debug)]
pub enum About {
    List,
    Path(Vec<String>),
    Unknown,
    /// looks similar but is not a help request: must reach the command processor
    NotHelp,
    /// the help option was added to this line; whatever command path the real parser sees in the line without it
    /// is the command the help must be about (resolved at run time into Path / Unknown)
    AsParsed(String),
}

#[derive(Clone, Debug)]
pub struct HelpCase {
    pub line: String,
    pub kind: &'static str,
    pub about: About,
}

/// tokens that walk `path`, with valid options of the parents in between
fn path_tokens(d: &Decl, path: &[String], rng: &mut Rng, with_parent_opts: bool) -> Vec<String> {
    let mut toks = vec![];
    for k in 0..path.len() {
        toks.push(path[k].clone());
        if k + 1 < path.len() && with_parent_opts {
            if let Some(v) = resolve_path(d, &path[..=k].to_vec()) {
                for f in &v.fields {
                    if let FieldKind::Named { long, short, .. } = &f.kind {
                        if rng.chance(50) {
                            let sp = if let (Some(s), true) = (short, rng.chance(50)) { format!("-{}", s) } else if let Some(l) = long { format!("--{}", l) } else { format!("-{}", short.unwrap()) };
                            toks.push(sp);
                            if !f.is_flag() {
                                toks.push(gen_value(rng, f.ty, false));
                            }
                        }
                    }
                }
            }
        }
    }
    toks
}

/// tokens of an invocation of the command at `path` that is complete at every level (required options of the parents,
/// a valid argument list for the last command when it has no sub-command), where a parent's value-taking option may be
/// left dangling in front of a flag / another option or share a short cluster with a flag. Returns the tokens and the index
/// right after the last path name.
fn agreement_tokens(d: &Decl, path: &[String], rng: &mut Rng) -> Option<(Vec<String>, usize)> {
    let mut toks: Vec<String> = vec![];
    let mut leaf_at = 0;
    for k in 0..path.len() {
        let v = resolve_path(d, &path[..=k])?;
        toks.push(path[k].clone());
        if k + 1 == path.len() {
            leaf_at = toks.len();
            if v.sub.is_none() {
                let mut own = gen_valid_tokens(d, v, rng, false);
                own.remove(0);
                toks.extend(own);
            }
            break;
        }
        // (tokens, droppable value, short of a value option, short of a flag)
        let mut groups: Vec<(Vec<String>, bool, Option<char>, Option<char>)> = vec![];
        for f in &v.fields {
            if let FieldKind::Named { long, short, .. } = &f.kind {
                let required = !f.optional && f.default.is_none() && !f.is_flag();
                if !(required || rng.chance(70)) {
                    continue;
                }
                let use_short = short.is_some() && (long.is_none() || rng.chance(50));
                let spelled = if use_short { format!("-{}", short.unwrap()) } else { format!("--{}", long.clone().unwrap()) };
                if f.is_flag() {
                    groups.push((vec![spelled], false, None, if use_short { *short } else { None }));
                } else {
                    // now and then the value of a text option is spelled like one of the sub-commands that follow
                    let val = match (&v.sub, f.ty) {
                        (Some(sp), Ty::Str) if rng.chance(30) => rng.pick(&d.enums[sp.enum_idx].variants).name.clone(),
                        _ => gen_value(rng, f.ty, false),
                    };
                    groups.push((vec![spelled, val], !required, if use_short { *short } else { None }, None));
                }
            }
        }
        for i in (1..groups.len()).rev() {
            let j = rng.below(i + 1);
            groups.swap(i, j);
        }
        let cand: Vec<usize> = (0..groups.len()).filter(|&i| groups[i].1).collect();
        if !cand.is_empty() && rng.chance(65) {
            let i = *rng.pick(&cand);
            groups[i].0.truncate(1);
            // most of the time something option-like follows the dangling option
            if i + 1 == groups.len() && groups.len() > 1 && rng.chance(80) {
                let g = groups.remove(i);
                let at = rng.below(groups.len());
                groups.insert(at, g);
            }
            // value-taking short option and a flag in one cluster
            let i = groups.iter().position(|g| g.0.len() == 1 && g.1).unwrap();
            if let (Some(n), true) = (groups[i].2, rng.chance(50)) {
                if let Some(j) = groups.iter().position(|g| g.3.is_some()) {
                    let fl = groups[j].3.unwrap();
                    groups[i].0 = vec![if rng.chance(70) { format!("-{}{}", n, fl) } else { format!("-{}{}", fl, n) }];
                    groups.remove(j);
                }
            }
        }
        for g in groups {
            toks.extend(g.0);
        }
    }
    Some((toks, leaf_at))
}

/// the command path named by a `#[derive(Debug)]` rendering of a parsed command of declaration `d`
pub fn path_from_debug(d: &Decl, dbg: &str) -> Option<Vec<String>> {
    // drop string and char literals, then keep the capitalised identifiers: those are variant names
    let mut plain = String::new();
    let mut it = dbg.chars();
    while let Some(c) = it.next() {
        if c == '"' || c == '\'' {
            let q = c;
            while let Some(e) = it.next() {
                if e == '\\' {
                    it.next();
                } else if e == q {
                    break;
                }
            }
            plain.push(' ');
        } else {
            plain.push(c);
        }
    }
    let idents: Vec<&str> = plain
        .split(|c: char| !(c.is_ascii_alphanumeric() || c == '_'))
        .filter(|w| w.chars().next().map(|c| c.is_ascii_uppercase()).unwrap_or(false) && !["Some", "None", "NaN"].contains(w))
        .collect();
    let mut k = 0;
    let mut ei = match &d.top {
        Top::Enum(i) => *i,
        Top::Group(g) => {
            let m = g.members.iter().find(|m| Some(&m.ident.as_str()) == idents.first())?;
            k = 1;
            match m.member {
                Member::Enum(i) => i,
                Member::Raw => return None,
            }
        }
    };
    let mut path = vec![];
    while k < idents.len() {
        let v = d.enums[ei].variants.iter().find(|v| v.ident == idents[k])?;
        path.push(v.name.clone());
        k += 1;
        match &v.sub {
            Some(s) => ei = s.enum_idx,
            None => break,
        }
    }
    if path.is_empty() || k != idents.len() {
        return None;
    }
    Some(path)
}

/// what the real derived parser makes of `line` (None: the command processor was not called)
fn parse_through_cli<T: Autocomplete + Help>(line: &str, parse: ParseFn) -> Option<Result<String, OwnedParseError>> {
    let cap = line.len() + 8;
    let mut cmd = vec![0u8; cap].into_boxed_slice();
    let mut hist = vec![0u8; 0].into_boxed_slice();
    let sink = MonSink::new();
    let mut rig: Rig<'_, T> = Rig::build(&mut cmd, &mut hist, 0, false, sink.clone(), RecProc::new(vec![], Some(parse))).expect("build");
    for &b in line.as_bytes() {
        rig.byte(b).expect("sink never fails");
    }
    rig.byte(b'\n').expect("sink never fails");
    rig.proc.log.first().and_then(|r| r.parsed.clone())
}

fn declares_short_h(d: &Decl, path: &[String]) -> bool {
    (0..path.len()).any(|k| {
        resolve_path(d, &path[..=k]).map(|v| v.fields.iter().any(|f| matches!(&f.kind, FieldKind::Named { short: Some('h'), .. }))).unwrap_or(false)
    })
}

pub fn gen_help_lines(d: &Decl, rng: &mut Rng, reps: usize) -> Vec<HelpCase> {
    let mut out = vec![];
    out.push(HelpCase { line: "help".into(), kind: "list", about: About::List });
    out.push(HelpCase { line: "  help  ".into(), kind: "list", about: About::List });
    let paths = all_paths(d);
    for p in &paths {
        for _ in 0..reps {
            // help p1 .. pn
            let mut t = vec!["help".to_string()];
            let wp = rng.chance(50);
            t.extend(path_tokens(d, p, rng, wp));
            out.push(HelpCase { line: render_tokens(&t, rng), kind: "help-command", about: About::Path(p.clone()) });
            // p1 .. pn [own options / values] -h|--help at any boundary after pn
            let v = resolve_path(d, p).unwrap();
            if declares_short_h(d, p) {
                // a command on the path has a `-h` option of its own: with the help facility on, what `-h` between its
                // options means is not decided by the statement (only builds without help can use that option)
                continue;
            }
            let wp = rng.chance(50);
            let mut t = path_tokens(d, p, rng, wp);
            let base = t.len();
            let mut own: Vec<String> = vec![];
            if v.sub.is_none() {
                let mut ot = gen_valid_tokens(d, v, rng, false);
                ot.remove(0);
                // never past a `--`: there the help option would be a value
                if let Some(pos) = ot.iter().position(|x| x == "--") {
                    ot.truncate(pos);
                }
                // drop tokens that are themselves help-shaped values would not matter; keep
                own = ot;
            } else {
                for f in &v.fields {
                    if let FieldKind::Named { long, short, .. } = &f.kind {
                        if rng.chance(40) {
                            own.push(if let Some(l) = long { format!("--{}", l) } else { format!("-{}", short.unwrap()) });
                            if !f.is_flag() {
                                own.push(gen_value(rng, f.ty, false));
                            }
                        }
                    }
                }
            }
            t.extend(own);
            let at = rng.range(base, t.len());
            // -h on its own, --help, or h inside a cluster of short options (`-vh`, `-hv`: the options v and h) next to a flag the
            // command declares or a letter it does not
            let mut flags: Vec<char> = v.fields.iter().filter(|f| f.is_flag()).filter_map(|f| if let FieldKind::Named { short: Some(c), .. } = &f.kind { Some(*c) } else { None }).filter(|c| *c != 'h').collect();
            flags.push('Z');
            flags.push('é');
            let x = *rng.pick(&flags);
            let (tok, kind) = match rng.below(7) {
                0 | 1 | 2 => ("-h".to_string(), "help-option"),
                3 | 4 => ("--help".to_string(), "help-option"),
                5 => (format!("-{}h", x), "help-option-in-cluster"),
                _ => (format!("-h{}", x), "help-option-in-cluster"),
            };
            t.insert(at, tok);
            out.push(HelpCase { line: render_tokens(&t, rng), kind, about: About::Path(p.clone()) });
        }
    }
    // option-shaped tokens the command does not declare (`---`, `----`, `---x`, ...: long options by C08's rules, none of them
    // `--`) in front of the help option: the line still carries -h / --help among its options before any `--`
    for p in &paths {
        if declares_short_h(d, p) {
            continue;
        }
        let mut t: Vec<String> = p.clone();
        for _ in 0..rng.range(1, 2) {
            t.push(rng.pick(&["---", "----", "---x", "--é-", "-----"]).to_string());
        }
        t.push(if rng.chance(50) { "-h".into() } else { "--help".into() });
        if rng.chance(40) {
            t.push(rng.pick(&["---", "--zz9"]).to_string());
        }
        out.push(HelpCase { line: render_tokens(&t, rng), kind: "help-option-after-undeclared-options", about: About::Path(p.clone()) });
    }
    // the help option as the 300th token of the line (token counts and offsets beyond one octet): still a help request
    for p in paths.iter().filter(|p| resolve_path(d, p).map(|v| v.sub.is_none()).unwrap_or(false)).take(2) {
        // (a command without sub-commands: after one with sub-commands the first value would name the sub-command asked about)
        if declares_short_h(d, p) {
            continue;
        }
        let mut t: Vec<String> = p.clone();
        for i in 0..300 {
            t.push(format!("v{}", i % 7));
        }
        t.push(if rng.chance(50) { "-h".into() } else { "--help".into() });
        out.push(HelpCase { line: t.join(" "), kind: "help-option-after-300-tokens", about: About::Path(p.clone()) });
    }
    // help vs parser agreement: a complete invocation (parent options of every level, some of them left without their
    // value, some clustered with a flag) plus a help option somewhere after the last path name
    for p in &paths {
        for _ in 0..reps {
            if declares_short_h(d, p) {
                continue;
            }
            if let Some((t, leaf_at)) = agreement_tokens(d, p, rng) {
                let plain = render_tokens(&t, rng);
                let mut th = t.clone();
                let limit = th.iter().position(|x| x == "--").unwrap_or(th.len());
                if limit < leaf_at {
                    continue;
                }
                let at = rng.range(leaf_at, limit);
                th.insert(at, if rng.chance(50) { "-h".into() } else { "--help".into() });
                out.push(HelpCase { line: render_tokens(&th, rng), kind: "help-as-parsed", about: About::AsParsed(plain) });
            }
        }
    }
    // near misses: the help option after `--`, other spellings, `help` as an argument value
    for p in paths.iter().take(6) {
        let base = p.join(" ");
        for tail in ["-- -h", "-- --help", "-H", "--helpx", "--hel", "-- help"] {
            out.push(HelpCase { line: format!("{} {}", base, tail), kind: "not-help", about: About::NotHelp });
        }
    }
    out.push(HelpCase { line: "helpx".into(), kind: "not-help", about: About::NotHelp });
    out.push(HelpCase { line: "Help".into(), kind: "not-help", about: About::NotHelp });
    // unknown and hidden names
    for bad in ["zz9", "Help", "\"\"", "\"\" zz9"] {
        out.push(HelpCase { line: format!("help {}", bad), kind: "unknown", about: About::Unknown });
    }
    // the empty string is a token like any other, and not a command
    out.push(HelpCase { line: "\"\" --help".into(), kind: "unknown", about: About::Unknown });
    for h in hidden_names(d) {
        out.push(HelpCase { line: format!("help {}", h), kind: "hidden", about: About::Unknown });
        out.push(HelpCase { line: format!("{} --help", h), kind: "hidden", about: About::Unknown });
    }
    for p in &paths {
        if let Some(v) = resolve_path(d, p) {
            if v.sub.is_some() {
                let mut t = vec!["help".to_string()];
                t.extend(p.clone());
                t.push("zz9".into());
                out.push(HelpCase { line: t.join(" "), kind: "unknown-nested", about: About::Unknown });
                t.pop();
                t.push("\"\"".into());
                out.push(HelpCase { line: t.join(" "), kind: "unknown-nested", about: About::Unknown });
            }
        }
    }
    out
}

/// returns (rows between the submitted line and the next prompt, number of processor calls)
fn help_through_cli<T: Autocomplete + Help>(line: &str, parse: ParseFn) -> (Vec<String>, usize) {
    let cap = line.len() + 8;
    let mut cmd = vec![0u8; cap].into_boxed_slice();
    let mut hist = vec![0u8; 0].into_boxed_slice();
    let sink = MonSink::new();
    let mut rig: Rig<'_, T> = Rig::build(&mut cmd, &mut hist, 0, false, sink.clone(), RecProc::new(vec![], Some(parse))).expect("build");
    for &b in line.as_bytes() {
        rig.byte(b).expect("sink never fails");
    }
    let mark = sink.0.borrow().bytes.len();
    rig.byte(b'\n').expect("sink never fails");
    let out = sink.0.borrow().bytes[mark..].to_vec();
    (rows_between(&out), rig.proc.log.len())
}

fn strip_comma(w: &str) -> &str {
    w.trim_end_matches(',')
}

pub fn judge_help(d: &Decl, hc: &HelpCase, rows: &[String]) -> Vec<(&'static str, String, String)> {
    let mut fails: Vec<(&'static str, String, String)> = vec![];
    let wrows: Vec<Vec<String>> = rows.iter().map(|r| words(r)).collect();
    match &hc.about {
        About::NotHelp | About::AsParsed(_) => {}
        About::Unknown => {
            if !(rows.len() == 1 && rows[0] == "error: unknown command") {
                fails.push(("unknown-command-message", hc.kind.to_string(), "expected exactly the line `error: unknown command`".into()));
            }
        }
        About::List => {
            for name in d.visible_names() {
                let hits: Vec<&Vec<String>> = wrows.iter().filter(|w| w.first() == Some(&name)).collect();
                if hits.len() != 1 {
                    fails.push(("list", if hits.is_empty() { "command-not-listed".into() } else { "command-listed-twice".into() }, format!("command {:?} is listed {} times", name, hits.len())));
                    continue;
                }
                let v = resolve_path(d, &[name.clone()]).unwrap();
                let want = summary_of(&v.doc).map(|s| words(&s)).unwrap_or_default();
                if hits[0][1..] != want[..] {
                    fails.push(("list", "wrong-summary".into(), format!("command {:?} is listed with {:?}, its summary is {:?}", name, &hits[0][1..], want)));
                }
            }
            for h in hidden_names(d) {
                if wrows.iter().any(|w| w.first() == Some(&h)) {
                    fails.push(("list", "hidden-command-listed".into(), format!("hidden command {:?} is listed", h)));
                }
            }
        }
        About::Path(p) => {
            let v = match resolve_path(d, p) {
                Some(v) => v,
                None => return fails,
            };
            // description
            for para in description_of(&v.doc) {
                let w = words(&para);
                let n = wrows.iter().filter(|r| **r == w).count();
                if n == 0 {
                    fails.push(("command-help", "description-missing".into(), format!("description paragraph {:?} is not printed", para)));
                } else if n > 1 {
                    // "prints its description": the text of the doc comment, not some paragraphs of it several times
                    fails.push(("command-help", "description-repeated".into(), format!("description paragraph {:?} is printed {} times", para, n)));
                }
            }
            // usage line
            let usage: Vec<&Vec<String>> = wrows.iter().filter(|w| w.first().map(|x| x == "Usage:").unwrap_or(false)).collect();
            if usage.len() != 1 {
                fails.push(("command-help", "usage-line".into(), format!("{} usage lines", usage.len())));
            } else {
                let u = usage[0];
                if !is_subsequence(p, &u[1..]) {
                    fails.push(("command-help", "usage-path".into(), format!("usage line {:?} does not carry the full path {:?}", u, p)));
                }
                for f in v.fields.iter().filter(|f| f.is_positional()) {
                    if !u.contains(&f.value_usage()) {
                        fails.push(("command-help", "usage-positional".into(), format!("usage line {:?} lacks {}", u, f.value_usage())));
                    }
                }
                if let Some(s) = &v.sub {
                    let c = if s.optional { "[COMMAND]" } else { "<COMMAND>" };
                    if !u.contains(&c.to_string()) {
                        fails.push(("command-help", "usage-subcommand".into(), format!("usage line {:?} lacks {}", u, c)));
                    }
                }
            }
            let mut others: Vec<&Vec<String>> = wrows.iter().filter(|w| w.first().map(|x| x != "Usage:").unwrap_or(false)).collect();
            // the entry of the built-in help option is not one of the declaration's (which may have a `-h` of its own)
            if let Some(i) = others.iter().position(|w| w.len() >= 2 && w[0] == "-h," && w[1] == "--help") {
                others.remove(i);
            }
            for f in &v.fields {
                match &f.kind {
                    FieldKind::Positional => {
                        let n = others.iter().filter(|w| w[0] == f.value_usage()).count();
                        if n != 1 {
                            fails.push(("command-help", "positional-entry".into(), format!("{} entries for positional {}", n, f.value_usage())));
                        }
                    }
                    FieldKind::Named { long, short, .. } => {
                        let n = others
                            .iter()
                            .filter(|w| {
                                let set: Vec<&str> = w.iter().map(|x| strip_comma(x)).collect();
                                long.as_ref().map(|l| set.contains(&format!("--{}", l).as_str())).unwrap_or(true)
                                    && short.map(|s| set.contains(&format!("-{}", s).as_str())).unwrap_or(true)
                                    && (f.is_flag() || set.contains(&f.value_usage().as_str()))
                            })
                            .count();
                        if n != 1 {
                            fails.push(("command-help", "option-entry".into(), format!("{} entries for option {}", n, f.usage_name())));
                        }
                    }
                }
            }
            if let Some(s) = &v.sub {
                for sv in &d.enums[s.enum_idx].variants {
                    let hits: Vec<&&Vec<String>> = others.iter().filter(|w| w[0] == sv.name).collect();
                    if hits.len() != 1 {
                        fails.push(("command-help", "subcommand-entry".into(), format!("{} entries for sub-command {:?}", hits.len(), sv.name)));
                    } else {
                        let want = summary_of(&sv.doc).map(|x| words(&x)).unwrap_or_default();
                        if hits[0][1..] != want[..] {
                            fails.push(("command-help", "subcommand-summary".into(), format!("sub-command {:?} listed with {:?}, summary is {:?}", sv.name, &hits[0][1..], want)));
                        }
                    }
                }
            }
        }
    }
    fails
}

// ------------------------------------------------------------------ C11 helper

/// type `line`, move the cursor `left` characters back, press Tab; returns the line afterwards and
/// whether the terminal agrees with it (row, column)
pub fn tab_through_cli<T: Autocomplete + Help>(line: &str, left: usize, cap: usize) -> (String, (bool, String, usize)) {
    let mut cmd = vec![0u8; cap].into_boxed_slice();
    let mut hist = vec![0u8; 0].into_boxed_slice();
    let sink = MonSink::new();
    let mut rig: Rig<'_, T> = Rig::build(&mut cmd, &mut hist, 0, false, sink.clone(), RecProc::new(vec![], None)).expect("build");
    for &b in line.as_bytes() {
        rig.byte(b).expect("sink never fails");
    }
    for _ in 0..left {
        for &b in b"\x1b[D" {
            rig.byte(b).expect("sink never fails");
        }
    }
    rig.byte(b'\t').expect("sink never fails");
    let e = rig.editor();
    let post = String::from_utf8_lossy(&e.line).to_string();
    let mut t = Term::new();
    t.feed(&sink.0.borrow().bytes);
    let want = format!("$ {}", post);
    let ok = t.gave_up.is_some() || (t.cur_row_trimmed() == want.trim_end_matches(' ') && t.col == 2 + e.cursor);
    (post, (ok, t.cur_row_trimmed(), t.col))
}
