//! Incremental ECMA-48 terminal emulator with unbounded width, width-1 glyphs.
//! Anything it does not understand makes it give up (=> inconclusive, never a violation).

#[derive(Clone, Debug, PartialEq, Eq)]
enum St {
    Ground,
    Esc,
    Csi,
}

#[derive(Clone, Debug)]
pub struct Term {
    pub rows: Vec<Vec<char>>,
    pub row: usize,
    pub col: usize,
    st: St,
    params: Vec<u8>,
    utf: Vec<u8>,
    pub gave_up: Option<String>,
}

impl Default for Term {
    fn default() -> Self {
        Self::new()
    }
}

impl Term {
    pub fn new() -> Self {
        Term {
            rows: vec![Vec::new()],
            row: 0,
            col: 0,
            st: St::Ground,
            params: Vec::new(),
            utf: Vec::new(),
            gave_up: None,
        }
    }

    /// would a fresh emulator interpret all of these bytes?
    pub fn understands(bytes: &[u8]) -> bool {
        let mut t = Term::new();
        t.feed(bytes);
        t.gave_up.is_none()
    }

    pub fn feed(&mut self, bytes: &[u8]) {
        for &b in bytes {
            self.feed_byte(b);
        }
    }

    fn give_up(&mut self, why: String) {
        if self.gave_up.is_none() {
            self.gave_up = Some(why);
        }
    }

    /// true when the byte stream is between characters / sequences
    pub fn at_boundary(&self) -> bool {
        self.st == St::Ground && self.utf.is_empty()
    }

    pub fn feed_byte(&mut self, b: u8) {
        if self.gave_up.is_some() {
            return;
        }
        match self.st {
            St::Esc => {
                if b == b'[' {
                    self.st = St::Csi;
                    self.params.clear();
                } else {
                    self.give_up(format!("ESC followed by 0x{:02x}", b));
                }
            }
            St::Csi => {
                if (0x20..=0x3f).contains(&b) {
                    self.params.push(b);
                } else if (0x40..=0x7e).contains(&b) {
                    self.st = St::Ground;
                    self.csi(b);
                } else {
                    self.give_up(format!("byte 0x{:02x} inside CSI", b));
                }
            }
            St::Ground => {
                if !self.utf.is_empty() || b >= 0x80 {
                    self.utf.push(b);
                    match core::str::from_utf8(&self.utf) {
                        Ok(s) => {
                            let c = s.chars().next().unwrap();
                            self.utf.clear();
                            self.put(c);
                        }
                        Err(e) => {
                            if e.error_len().is_some() || self.utf.len() >= 4 {
                                self.give_up("ill-formed UTF-8 on the wire".to_string());
                            }
                        }
                    }
                    return;
                }
                match b {
                    0x0d => self.col = 0,
                    0x0a => {
                        self.row += 1;
                        if self.row == self.rows.len() {
                            self.rows.push(Vec::new());
                        }
                    }
                    0x08 => self.col = self.col.saturating_sub(1),
                    0x1b => self.st = St::Esc,
                    0x20..=0x7e => self.put(b as char),
                    _ => self.give_up(format!("control byte 0x{:02x}", b)),
                }
            }
        }
    }

    fn put(&mut self, c: char) {
        let col = self.col;
        let r = &mut self.rows[self.row];
        while r.len() < col {
            r.push(' ');
        }
        if col < r.len() {
            r[col] = c;
        } else {
            r.push(c);
        }
        self.col += 1;
    }

    fn csi(&mut self, fin: u8) {
        let ps = String::from_utf8_lossy(&self.params).to_string();
        let n: Option<usize> = if ps.is_empty() { None } else { ps.parse().ok() };
        if !ps.is_empty() && n.is_none() {
            self.give_up(format!("CSI params {:?}", ps));
            return;
        }
        let n1 = n.unwrap_or(1).max(1);
        let col = self.col;
        let r = &mut self.rows[self.row];
        match fin {
            b'C' => self.col += n1,
            b'D' => self.col = self.col.saturating_sub(n1),
            b'G' => self.col = n1 - 1,
            b'P' => {
                for _ in 0..n1 {
                    if col < r.len() {
                        r.remove(col);
                    }
                }
            }
            b'@' => {
                if col < r.len() {
                    for _ in 0..n1 {
                        r.insert(col, ' ');
                    }
                }
            }
            b'X' => {
                for i in col..(col + n1).min(r.len()) {
                    r[i] = ' ';
                }
            }
            b'K' => match n.unwrap_or(0) {
                0 => r.truncate(col),
                1 => {
                    for i in 0..=col.min(r.len().saturating_sub(1)) {
                        if i < r.len() {
                            r[i] = ' ';
                        }
                    }
                }
                2 => r.clear(),
                _ => self.give_up(format!("EL {}", ps)),
            },
            _ => self.give_up(format!("CSI final {:?}", fin as char)),
        }
    }

    pub fn row_trimmed(&self, i: usize) -> String {
        let r = &self.rows[i];
        let mut end = r.len();
        while end > 0 && r[end - 1] == ' ' {
            end -= 1;
        }
        r[..end].iter().collect()
    }

    pub fn cur_row_trimmed(&self) -> String {
        self.row_trimmed(self.row)
    }

    pub fn all_rows_trimmed(&self) -> Vec<String> {
        (0..self.rows.len()).map(|i| self.row_trimmed(i)).collect()
    }
}

pub fn trim_blanks(s: &str) -> &str {
    s.trim_end_matches(' ')
}
