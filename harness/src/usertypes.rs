//! Application-defined argument types for generated declarations: the derive macros convert every field through
//! `FromArgument`, so a type the library has never heard of must work like the built-in ones (value conversion by *its* parser,
//! its `expected` text in the error, its `Default`, a borrowed variant that keeps the enum's lifetime).
use embedded_cli::arguments::{FromArgument, FromArgumentError};

/// `0x` followed by 1..=8 hexadecimal digits
#[derive(Debug, Default, Clone, Copy, PartialEq, Eq)]
pub struct Hex(pub u32);

pub fn parse_hex(arg: &str) -> Option<u32> {
    let d = arg.strip_prefix("0x")?;
    if d.is_empty() || d.len() > 8 || !d.bytes().all(|b| b.is_ascii_hexdigit()) {
        return None;
    }
    u32::from_str_radix(d, 16).ok()
}

impl<'a> FromArgument<'a> for Hex {
    fn from_arg(arg: &'a str) -> Result<Self, FromArgumentError<'a>> {
        parse_hex(arg).map(Hex).ok_or(FromArgumentError { value: arg, expected: "hex number" })
    }
}

/// `#` followed by at least one character; borrows from the line
#[derive(Debug, Default, Clone, Copy, PartialEq, Eq)]
pub struct Tag<'a>(pub &'a str);

pub fn parse_tag(arg: &str) -> Option<&str> {
    let t = arg.strip_prefix('#')?;
    if t.is_empty() {
        None
    } else {
        Some(t)
    }
}

impl<'a> FromArgument<'a> for Tag<'a> {
    fn from_arg(arg: &'a str) -> Result<Self, FromArgumentError<'a>> {
        parse_tag(arg).map(Tag).ok_or(FromArgumentError { value: arg, expected: "#tag" })
    }
}
