use vcore::report::Report;
use vcore::runner::*;

fn main() {
    let argv: Vec<String> = std::env::args().collect();
    if argv.len() < 2 {
        eprintln!("usage: vrun <workload> [--tier quick|thorough] [--seed N] [--shard i --nshards n] [--out file] [--only k] [--replay S]");
        std::process::exit(2);
    }
    let args = Args::parse(&argv);
    install_crash_marker();
    install_panic_capture();
    let mut rep = Report::new();
    let wl = args.workload.clone();
    if let Some(s) = &args.replay {
        let ok = match wl.as_str() {
            "C01" | "C05" | "C06" | "C10" | "C13" | "C15" | "C02" | "C03" | "C11" | "C16" | "ALL" => vcore::props::sessions::replay(&wl, s, &mut rep),
            _ => {
                eprintln!("workload {} has no session replay", wl);
                false
            }
        };
        finish(&args, &rep);
        std::process::exit(if ok { 0 } else { 1 });
    }
    match wl.as_str() {
        "C01" | "C05" | "C06" | "C10" | "C11" | "C13" | "C15" | "C16" => vcore::props::sessions::run(&wl, &args, &mut rep),
        "C02-direct" => vcore::props::c02::run_direct(&args, &mut rep),
        "C02-cli" => vcore::props::c02::run_cli(&args, &mut rep),
        "C02-accept" => vcore::props::c02::run_accept(&args, &mut rep),
        "C07-direct" => vcore::props::c07::run_direct(&args, &mut rep),
        "C11-dyn" => vcore::props::c11dyn::run(&args, &mut rep),
        "C07-scalars" => vcore::props::c07::run_scalars(&args, &mut rep),
        "C07-random" => vcore::props::c07::run_random(&args, &mut rep),
        "C08-direct" => vcore::props::c07::run_c08_direct(&args, &mut rep),
        "C08-scalars" => vcore::props::c07::run_c08_scalars(&args, &mut rep),
        "C08-random" => vcore::props::c07::run_c08_random(&args, &mut rep),
        w if w.ends_with("-huge") => vcore::props::sessions::run_huge(&w[..3].to_string(), &args, &mut rep),
        w if w.ends_with("-large") => vcore::props::sessions::run_large(&w[..3].to_string(), &args, &mut rep),
        w if w.ends_with("-sclosure") => vcore::props::sclosure::run(&w[..3].to_string(), &args, &mut rep),
        "C05-closure" => vcore::props::closure::run_c05_component(&args, &mut rep),
        "C05-closure-cli" => vcore::props::closure::run_c05_cli(&args, &mut rep),
        "C10-closure" => vcore::props::closure::run_c10_component(&args, &mut rep),
        "C17" => vcore::props::c17::run(&args, &mut rep),
        "C17-sample" => vcore::props::c17::run_sample(&args, &mut rep),
        "C17-complete" => vcore::props::c17::run_complete(&args, &mut rep),
        "C14" => vcore::props::c14::run(&args, &mut rep),
        "C14-random" => vcore::props::c14::run_random(&args, &mut rep),
        "C03-sessions" => vcore::props::c03::run_sessions(&args, &mut rep),
        "C03-arrays" => vcore::props::c03::run_arrays(&args, &mut rep),
        "C03-lean" => vcore::props::c03::run_lean(&args, &mut rep),
        "C03-components" => vcore::props::c03::run_components(&args, &mut rep),
        "gen-decls" => {
            // vrun gen-decls --seed S  <batch> <n_full> <n_names> <out file>
            let b: usize = args.extra[0].parse().unwrap();
            let nf: usize = args.extra[1].parse().unwrap();
            let nn: usize = args.extra[2].parse().unwrap();
            let decls = vcore::declgen::gen_batch(args.seed, b, nf, nn);
            let src = vcore::declgen::emit_batch_main(&decls, args.seed, b, nf, nn);
            std::fs::write(&args.extra[3], src).expect("write batch source");
            return;
        }
        "decode-fuzz" => {
            let data = std::fs::read(&args.extra[0]).expect("read fuzz input");
            if let Some((cfg, ops)) = vcore::props::c03::decode_fuzz_input(&data) {
                println!("{}", vcore::session::encode_session(&cfg, &ops));
            }
            return;
        }
        "canary" => {
            vcore::props::c03::canary(args.extra.first().map(|s| s.as_str()).unwrap_or(""));
            return;
        }
        "C04-direct" => vcore::props::c04::run_direct(&args, &mut rep),
        "C04-scalars" => vcore::props::c04::run_scalars(&args, &mut rep),
        "C04-cli" => vcore::props::c04::run_cli(&args, &mut rep),
        other => {
            eprintln!("unknown workload {}", other);
            std::process::exit(2);
        }
    }
    finish(&args, &rep);
}
