use vcore::report::Report;
use vcore::runner::*;

fn main() {
    let argv: Vec<String> = std::env::args().collect();
    if argv.len() < 2 {
        eprintln!("usage: vrun <workload> [--tier quick|thorough] [--seed N] [--shard i --nshards n] [--out file] [--only k] [--replay S]");
        std::process::exit(2);
    }
    let args = Args::parse(&argv);
    install_crash_marker();
    install_panic_capture();
    let mut rep = Report::new();
    let wl = args.workload.clone();
    if let Some(s) = &args.replay {
        let ok = match wl.as_str() {
            "C01" | "C05" | "C06" | "C10" | "C13" | "C15" | "C02" | "C03" | "C11" | "C16" | "ALL" => vcore::props::sessions::replay(&wl, s, &mut rep),
            _ => {
                eprintln!("workload {} has no session replay", wl);
                false
            }
        };
        finish(&args, &rep);
        std::process::exit(if ok { 0 } else { 1 });
    }
    match wl.as_str() {
        "C01" | "C05" | "C06" | "C10" | "C13" | "C15" => vcore::props::sessions::run(&wl, &args, &mut rep),
        other => {
            eprintln!("unknown workload {}", other);
            std::process::exit(2);
        }
    }
    finish(&args, &rep);
}
