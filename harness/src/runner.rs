//! Worker-side plumbing: argument parsing, crash marker, panic capture, shrinking, output.
use crate::json::J;
use crate::prng::Rng;
use crate::report::{Report, Violation};
use crate::session::*;
use std::cell::RefCell;
use std::panic::{catch_unwind, AssertUnwindSafe};
use std::sync::atomic::Ordering;
#[cfg(target_has_atomic = "64")]
use std::sync::atomic::AtomicU64;

#[derive(Clone, Debug)]
pub struct Args {
    pub workload: String,
    pub thorough: bool,
    pub seed: u64,
    pub shard: u64,
    pub nshards: u64,
    pub start: u64,
    pub end: Option<u64>,
    pub verbose: bool,
    pub only: Option<u64>,
    pub dump_case: Option<u64>,
    pub replay: Option<String>,
    pub out: Option<String>,
    pub scale: f64,
    pub extra: Vec<String>,
}

impl Args {
    pub fn parse(argv: &[String]) -> Args {
        let mut a = Args {
            workload: argv.get(1).cloned().unwrap_or_default(),
            thorough: false,
            seed: 1,
            shard: 0,
            nshards: 1,
            start: 0,
            end: None,
            verbose: false,
            only: None,
            dump_case: None,
            replay: None,
            out: None,
            scale: 1.0,
            extra: vec![],
        };
        let mut i = 2;
        while i < argv.len() {
            let v = argv.get(i + 1).cloned().unwrap_or_default();
            match argv[i].as_str() {
                "--tier" => a.thorough = v == "thorough",
                "--seed" => a.seed = v.parse().unwrap_or(1),
                "--shard" => a.shard = v.parse().unwrap_or(0),
                "--nshards" => a.nshards = v.parse().unwrap_or(1),
                "--start" => a.start = v.parse().unwrap_or(0),
                "--end" => a.end = v.parse().ok(),
                "--verbose" => a.verbose = v != "0",
                "--only" => a.only = v.parse().ok(),
                "--dump-case" => a.dump_case = v.parse().ok(),
                "--replay" => a.replay = Some(v),
                "--out" => a.out = Some(v),
                "--scale" => a.scale = v.parse().unwrap_or(1.0),
                other => {
                    a.extra.push(other.to_string());
                    i += 1;
                    continue;
                }
            }
            i += 2;
        }
        a
    }
    pub fn scaled(&self, n: u64) -> u64 {
        ((n as f64) * self.scale).max(1.0) as u64
    }
}

// ---------------------------------------------------------------- crash marker

#[cfg(target_has_atomic = "64")]
pub static CUR_CASE: AtomicU64 = AtomicU64::new(u64::MAX);
/// targets without 64-bit atomics (32-bit MIPS / PowerPC, only ever run under Miri, where no signal handler reads this)
#[cfg(not(target_has_atomic = "64"))]
pub static CUR_CASE: CaseCell = CaseCell(std::sync::atomic::AtomicUsize::new(usize::MAX));
#[cfg(not(target_has_atomic = "64"))]
pub struct CaseCell(std::sync::atomic::AtomicUsize);
#[cfg(not(target_has_atomic = "64"))]
impl CaseCell {
    pub fn store(&self, v: u64, o: Ordering) {
        self.0.store(if v == u64::MAX { usize::MAX } else { v as usize }, o)
    }
    pub fn load(&self, o: Ordering) -> u64 {
        let v = self.0.load(o);
        if v == usize::MAX { u64::MAX } else { v as u64 }
    }
}

extern "C" {
    fn signal(signum: i32, handler: usize) -> usize;
    fn write(fd: i32, buf: *const u8, n: usize) -> isize;
    fn raise(sig: i32) -> i32;
}

extern "C" fn on_fatal(sig: i32) {
    // async-signal-safe: format by hand, write(2), re-raise with the default action
    let mut buf = [0u8; 64];
    let pre = b"\nVRUN-CRASH case=";
    let mut n = 0;
    for &b in pre {
        buf[n] = b;
        n += 1;
    }
    let mut v = CUR_CASE.load(Ordering::Relaxed);
    let mut digits = [0u8; 20];
    let mut d = 0;
    if v == 0 {
        digits[0] = b'0';
        d = 1;
    }
    while v > 0 {
        digits[d] = b'0' + (v % 10) as u8;
        v /= 10;
        d += 1;
    }
    while d > 0 {
        d -= 1;
        buf[n] = digits[d];
        n += 1;
    }
    buf[n] = b'\n';
    n += 1;
    unsafe {
        write(2, buf.as_ptr(), n);
        signal(sig, 0);
        raise(sig);
    }
}

pub fn install_crash_marker() {
    if cfg!(miri) {
        return; // no signal() under Miri; Miri reports UB itself
    }
    unsafe {
        for sig in [6, 11, 4, 7, 8] {
            // SA_ONSTACK: a stack overflow (unbounded recursion in the library) raises SIGSEGV with no stack left; the handler
            // must run on the alternate stack the Rust runtime has set up for the main thread, or the worker dies without
            // saying which case it was running
            let act = SigAction { handler: on_fatal as *const () as usize, mask: [0; 16], flags: 0x0800_0000, restorer: 0 };
            if sigaction(sig, &act, core::ptr::null_mut()) != 0 {
                signal(sig, on_fatal as *const () as usize);
            }
        }
    }
}

/// glibc's `struct sigaction` on x86_64 / aarch64 Linux
#[repr(C)]
struct SigAction {
    handler: usize,
    mask: [u64; 16],
    flags: i32,
    restorer: usize,
}

extern "C" {
    fn sigaction(signum: i32, act: *const SigAction, old: *mut SigAction) -> i32;
}

thread_local! {
    static LAST_PANIC: RefCell<String> = RefCell::new(String::new());
}

thread_local! {
    static GUARD_DEPTH: std::cell::Cell<u32> = const { std::cell::Cell::new(0) };
}

pub fn install_panic_capture() {
    std::panic::set_hook(Box::new(|info| {
        let msg = format!("{}", info);
        if GUARD_DEPTH.with(|g| g.get()) == 0 {
            // a panic nobody is going to catch: harness code (generator, driver) failed; say so on stderr so the
            // orchestrator can report a harness error (inconclusive) with the reason
            eprintln!("VRUN-HARNESS-PANIC {}", msg);
        }
        LAST_PANIC.with(|p| *p.borrow_mut() = msg);
    }));
}

pub fn last_panic() -> String {
    LAST_PANIC.with(|p| p.borrow().clone())
}

/// Run `f`, turning a Rust panic into Err(message).
pub fn guarded<T>(f: impl FnOnce() -> T) -> Result<T, String> {
    GUARD_DEPTH.with(|g| g.set(g.get() + 1));
    let r = catch_unwind(AssertUnwindSafe(f));
    GUARD_DEPTH.with(|g| g.set(g.get() - 1));
    match r {
        Ok(v) => Ok(v),
        Err(_) => Err(last_panic()),
    }
}

// ---------------------------------------------------------------- sessions

/// outcome of one monitored session, panics included
pub fn run_guarded(cfg: &SessionCfg, ops: &[Op], env: &SessionEnv, rep: &mut Report) -> SessionResult {
    match guarded(|| run_session_kind(cfg, ops, env, rep)) {
        Ok(r) => r,
        Err(msg) => {
            let mut r = SessionResult::default();
            let prop = crash_prop(env.enabled);
            r.found.push(Found {
                prop,
                clause: "crash",
                tag: panic_tag(&msg),
                detail: format!("panic: {}", msg),
                op_index: ops.len(),
            });
            if prop != "C03" && env.enabled & P_C03 != 0 {
                r.found.push(Found { prop: "C03", clause: "crash", tag: panic_tag(&msg), detail: format!("panic: {}", msg), op_index: ops.len() });
            }
            r
        }
    }
}

fn crash_prop(enabled: u32) -> &'static str {
    for (bit, name) in [
        (P_C01, "C01"), (P_C02, "C02"), (P_C03, "C03"), (P_C05, "C05"), (P_C06, "C06"), (P_C10, "C10"),
        (P_C11, "C11"), (P_C13, "C13"), (P_C15, "C15"), (P_C16, "C16"),
    ] {
        if enabled == bit {
            return name;
        }
    }
    "C03"
}

/// stable tag for a panic: source location when present
pub fn panic_tag(msg: &str) -> String {
    // "panicked at embedded-cli/src/editor.rs:123:9:\nmessage"
    if let Some(rest) = msg.strip_prefix("panicked at ") {
        let loc = rest.split(':').next().unwrap_or("");
        let file = loc.rsplit('/').next().unwrap_or(loc);
        let what = rest.lines().nth(1).unwrap_or("").split_whitespace().take(4).collect::<Vec<_>>().join("-");
        return format!("panic@{}:{}", file, what);
    }
    "panic".to_string()
}

/// Greedy shrinking of a failing session: delete chunks of ops while the same
/// (property, clause, tag) still fires. At most `budget` re-executions.
pub fn shrink(cfg: &SessionCfg, ops: &[Op], env: &SessionEnv, key: (&str, &str, &str), budget: usize) -> (Vec<Op>, Found) {
    let mut scratch = Report::new();
    let fires = |ops: &[Op], scratch: &mut Report| -> Option<Found> {
        let r = run_guarded(cfg, ops, env, scratch);
        r.found.into_iter().find(|f| f.prop == key.0 && f.clause == key.1 && f.tag == key.2)
    };
    let mut cur: Vec<Op> = ops.to_vec();
    let mut best = match fires(&cur, &mut scratch) {
        Some(f) => f,
        None => {
            return (
                cur,
                Found { prop: "", clause: "", tag: String::new(), detail: "not reproducible".into(), op_index: 0 },
            )
        }
    };
    // cut everything after the op at which it fired
    if best.op_index + 1 < cur.len() {
        let t: Vec<Op> = cur[..best.op_index + 1].to_vec();
        if let Some(f) = fires(&t, &mut scratch) {
            cur = t;
            best = f;
        }
    }
    let mut runs = 0;
    let mut chunk = (cur.len() / 2).max(1);
    while chunk >= 1 && runs < budget {
        let mut i = 0;
        let mut progressed = false;
        while i < cur.len() && runs < budget {
            let end = (i + chunk).min(cur.len());
            let mut t = cur[..i].to_vec();
            t.extend_from_slice(&cur[end..]);
            runs += 1;
            if let Some(f) = fires(&t, &mut scratch) {
                cur = t;
                best = f;
                progressed = true;
            } else {
                i += chunk;
            }
        }
        if chunk == 1 && !progressed {
            break;
        }
        if chunk > 1 {
            chunk /= 2;
        }
    }
    (cur, best)
}

pub fn session_violation(cfg: &SessionCfg, ops: &[Op], f: &Found) -> Violation {
    Violation {
        property: f.prop.to_string(),
        clause: f.clause.to_string(),
        tag: f.tag.clone(),
        detail: format!("{} [at op {} of: {}]", f.detail, f.op_index, show_ops(ops)),
        replay: J::obj().set("kind", J::s("session")).set("session", J::s(encode_session(cfg, ops))),
        size: ops.len(),
    }
}

/// Run sessions `start..n` of this shard; each session is a deterministic function of (seed, shard, index).
pub fn run_session_cases(
    args: &Args,
    n: u64,
    env: &SessionEnv,
    rep: &mut Report,
    make: &dyn Fn(&mut Rng, u64) -> (SessionCfg, Vec<Op>),
) {
    let lo = args.only.unwrap_or(args.start);
    let hi = args.only.map(|o| o + 1).unwrap_or(args.end.unwrap_or(n).min(n));
    for idx in lo..hi {
        let mut rng = Rng::derive(args.seed, args.shard, idx);
        let (cfg, ops) = make(&mut rng, idx);
        if args.dump_case == Some(idx) {
            println!("{}", encode_session(&cfg, &ops));
            return;
        }
        CUR_CASE.store(idx, Ordering::Relaxed);
        rep.cases += 1;
        let r = run_guarded(&cfg, &ops, env, rep);
        rep.count_n("ops", r.ops_run as u64);
        if env.enabled & P_C16 != 0 {
            rep.transcripts.push((idx, r.touched, r.transcript));
        }
        rep.sample(ops.len(), || session_sample(&cfg, &ops));
        if let Some(w) = r.inconclusive {
            rep.inconclusive(w);
        }
        let mut done: Vec<(String, String, String)> = vec![];
        for f in &r.found {
            let key = (f.prop.to_string(), f.clause.to_string(), f.tag.clone());
            if done.contains(&key) {
                continue;
            }
            done.push(key.clone());
            let kstr = format!("{}|{}|{}", f.prop, f.clause, f.tag);
            let have = rep.viol_counts.get(&kstr).copied().unwrap_or(0);
            if have < 3 {
                let (sops, sf) = shrink(&cfg, &ops, env, (f.prop, f.clause, &f.tag), 1500);
                if sf.prop.is_empty() {
                    rep.violation(session_violation(&cfg, &ops, f));
                } else {
                    rep.violation(session_violation(&cfg, &sops, &sf));
                }
            } else {
                rep.violation(session_violation(&cfg, &ops, f));
            }
        }
    }
    CUR_CASE.store(u64::MAX, Ordering::Relaxed);
}

pub fn finish(args: &Args, rep: &Report) {
    let j = rep.to_json().set("workload", J::s(&args.workload)).set("shard", J::Int(args.shard as i64));
    let s = j.to_string();
    match &args.out {
        Some(p) => std::fs::write(p, s).expect("write shard result"),
        None => println!("{}", s),
    }
}

// ---------------------------------------------------------------- generic (non-session) cases

pub fn case_replay(args: &Args, case: u64, input: J) -> J {
    J::obj()
        .set("kind", J::s("case"))
        .set("workload", J::s(&args.workload))
        .set("tier", J::s(if args.thorough { "thorough" } else { "quick" }))
        .set("seed", J::Int(args.seed as i64))
        .set("shard", J::Int(args.shard as i64))
        .set("nshards", J::Int(args.nshards as i64))
        .set("case", J::Int(case as i64))
        .set("args", J::Arr(args.extra.iter().map(J::s).collect()))
        .set("input", input)
}

/// Helper to report a violation from a component workload
pub fn report(rep: &mut Report, args: &Args, prop: &str, clause: &str, tag: &str, case: u64, size: usize, input: J, detail: String) {
    if args.verbose {
        println!("FOUND property={} clause={} tag={} case={}: {}", prop, clause, tag, case, detail);
    }
    rep.violation(Violation {
        property: prop.to_string(),
        clause: clause.to_string(),
        tag: tag.to_string(),
        detail,
        replay: case_replay(args, case, input),
        size,
    });
}

/// Cases `0..n` of this shard (already partitioned by the caller or via `mine`).
pub fn run_cases(args: &Args, prop: &str, n: u64, rep: &mut Report, f: &mut dyn FnMut(u64, &mut Report)) {
    let lo = args.only.unwrap_or(args.start);
    let hi = args.only.map(|o| o + 1).unwrap_or(args.end.unwrap_or(n).min(n));
    for idx in lo..hi {
        if args.dump_case == Some(idx) {
            println!("case {} of workload {}", idx, args.workload);
            return;
        }
        CUR_CASE.store(idx, Ordering::Relaxed);
        rep.cases += 1;
        let r = guarded(|| f(idx, rep));
        if let Err(msg) = r {
            let tag = panic_tag(&msg);
            report(rep, args, prop, "crash", &tag, idx, 1, J::Null, format!("panic in case {}: {}", idx, msg));
        }
    }
    CUR_CASE.store(u64::MAX, Ordering::Relaxed);
}

/// Round-robin ownership of chunk `c` for this shard
pub fn mine(args: &Args, c: u64) -> bool {
    c % args.nshards.max(1) == args.shard
}
