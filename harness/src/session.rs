//! The monitored session: real Cli driven op by op, reference models in lockstep.
use crate::json::{hex, show_bytes, unhex, J};
use crate::prng::hash_u64s;
use crate::refmodel::*;
use crate::report::Report;
use crate::rig::*;
use crate::sets::SetKind;
use crate::sink::{Ev, MonSink};
use crate::term::Term;
use embedded_cli::__verif::{ControlInput, Input, InputGenerator, Tokens};
use embedded_cli::arguments::{Arg, ArgList};
use embedded_cli::service::{Autocomplete, Help};

pub const P_C01: u32 = 1 << 1;
pub const P_C02: u32 = 1 << 2;
pub const P_C03: u32 = 1 << 3;
pub const P_C05: u32 = 1 << 5;
pub const P_C06: u32 = 1 << 6;
pub const P_C10: u32 = 1 << 10;
pub const P_C11: u32 = 1 << 11;
pub const P_C13: u32 = 1 << 13;
pub const P_C15: u32 = 1 << 15;
pub const P_C16: u32 = 1 << 16;
pub const P_ALL: u32 = 0xFFFF_FFFF;

pub fn prop_bit(p: &str) -> u32 {
    match p {
        "C01" => P_C01,
        "C02" => P_C02,
        "C03" => P_C03,
        "C05" => P_C05,
        "C06" => P_C06,
        "C10" => P_C10,
        "C11" => P_C11,
        "C13" => P_C13,
        "C15" => P_C15,
        "C16" => P_C16,
        _ => 0,
    }
}

#[derive(Clone, Debug, PartialEq, Eq)]
pub enum Op {
    Byte(u8),
    Write(Vec<WCall>),
    SetPrompt(usize),
}

#[derive(Clone, Debug)]
pub struct SessionCfg {
    pub cmd: usize,
    pub hist: usize,
    pub prompt: usize,
    pub set: SetKind,
    pub use_new: bool,
    pub chunk: usize,
    pub script: Vec<HAction>,
    /// handler form (see RecProc::pform)
    pub pform: u8,
}

#[derive(Clone, Debug)]
pub struct Found {
    pub prop: &'static str,
    pub clause: &'static str,
    pub tag: String,
    pub detail: String,
    pub op_index: usize,
}

#[derive(Default, Debug)]
pub struct SessionResult {
    pub found: Vec<Found>,
    pub inconclusive: Option<String>,
    pub ops_run: usize,
    /// hash of everything observable (sink events, handler records, editor state) for C16
    pub transcript: u64,
    /// facilities the session touched (C16): bit0 Up/Down pressed, bit1 Tab pressed, bit2 help-shaped Enter
    pub touched: u32,
    /// hooked editor / history state after the last operation (None when the session ended early)
    pub final_state: Option<(EdState, Option<HistRaw>)>,
}

// ------------------------------------------------------------------ (de)serialisation

fn wkind_c(k: WKind) -> char {
    match k {
        WKind::Str => 'S',
        WKind::Ln => 'L',
        WKind::Ufmt => 'U',
        WKind::Fmt => 'F',
        WKind::Fmt2 => 'G',
        WKind::UfmtCh => 'u',
        WKind::FmtCh => 'f',
        WKind::FmtPad => 'p',
        WKind::FmtDbg => 'd',
        WKind::Ch => 'c',
        WKind::ListElem => 'e',
        WKind::Title => 't',
    }
}
fn c_wkind(c: char) -> Option<WKind> {
    Some(match c {
        'S' => WKind::Str,
        'L' => WKind::Ln,
        'U' => WKind::Ufmt,
        'F' => WKind::Fmt,
        'G' => WKind::Fmt2,
        'u' => WKind::UfmtCh,
        'f' => WKind::FmtCh,
        'p' => WKind::FmtPad,
        'd' => WKind::FmtDbg,
        'c' => WKind::Ch,
        'e' => WKind::ListElem,
        't' => WKind::Title,
        _ => return None,
    })
}
fn enc_calls(calls: &[WCall]) -> String {
    if calls.is_empty() {
        return "-".to_string();
    }
    calls.iter().map(|c| format!("{}{}", wkind_c(c.kind), hex(c.text.as_bytes()))).collect::<Vec<_>>().join(",")
}
fn dec_calls(s: &str) -> Option<Vec<WCall>> {
    if s == "-" {
        return Some(vec![]);
    }
    let mut v = vec![];
    for part in s.split(',') {
        let k = c_wkind(part.chars().next()?)?;
        let text = String::from_utf8(unhex(&part[1..])?).ok()?;
        v.push(WCall { kind: k, text });
    }
    Some(v)
}

pub fn encode_session(cfg: &SessionCfg, ops: &[Op]) -> String {
    let mut s = format!(
        "cmd={} hist={} prompt={} set={} new={} chunk={} pform={}",
        cfg.cmd,
        cfg.hist,
        cfg.prompt,
        cfg.set.name(),
        cfg.use_new as u8,
        cfg.chunk,
        cfg.pform
    );
    for a in &cfg.script {
        s.push_str(&format!(
            " H:{}:{}:{}",
            a.set_prompt.map(|p| p.to_string()).unwrap_or("-".into()),
            if a.reject { 2 } else { a.fail as u8 },
            enc_calls(&a.writes)
        ));
    }
    s.push_str(" ops");
    for op in ops {
        match op {
            Op::Byte(b) => s.push_str(&format!(" b{:02x}", b)),
            Op::SetPrompt(p) => s.push_str(&format!(" p{}", p)),
            Op::Write(c) => s.push_str(&format!(" w{}", enc_calls(c))),
        }
    }
    s
}

pub fn decode_session(s: &str) -> Option<(SessionCfg, Vec<Op>)> {
    let mut cfg = SessionCfg { cmd: 0, hist: 0, prompt: 0, set: SetKind::Raw, use_new: false, chunk: 0, script: vec![], pform: 0 };
    let mut ops = vec![];
    let mut in_ops = false;
    for tok in s.split_whitespace() {
        if in_ops {
            let (k, rest) = tok.split_at(1);
            match k {
                "b" => ops.push(Op::Byte(u8::from_str_radix(rest, 16).ok()?)),
                "p" => ops.push(Op::SetPrompt(rest.parse().ok()?)),
                "w" => ops.push(Op::Write(dec_calls(rest)?)),
                _ => return None,
            }
        } else if tok == "ops" {
            in_ops = true;
        } else if let Some(r) = tok.strip_prefix("H:") {
            let parts: Vec<&str> = r.splitn(3, ':').collect();
            if parts.len() != 3 {
                return None;
            }
            cfg.script.push(HAction {
                set_prompt: if parts[0] == "-" { None } else { Some(parts[0].parse().ok()?) },
                fail: parts[1] == "1",
                reject: parts[1] == "2",
                writes: dec_calls(parts[2])?,
            });
        } else {
            let (k, v) = tok.split_once('=')?;
            match k {
                "cmd" => cfg.cmd = v.parse().ok()?,
                "hist" => cfg.hist = v.parse().ok()?,
                "prompt" => cfg.prompt = v.parse().ok()?,
                "set" => cfg.set = SetKind::from_name(v)?,
                "new" => cfg.use_new = v == "1",
                "chunk" => cfg.chunk = v.parse().ok()?,
                "pform" => cfg.pform = v.parse().ok()?,
                _ => return None,
            }
        }
    }
    Some((cfg, ops))
}

/// human-readable op list for evidence samples
pub fn show_ops(ops: &[Op]) -> String {
    let mut s = String::new();
    let mut bytes: Vec<u8> = vec![];
    let flush = |bytes: &mut Vec<u8>, s: &mut String| {
        if !bytes.is_empty() {
            s.push_str(&format!("bytes\"{}\" ", show_bytes(bytes)));
            bytes.clear();
        }
    };
    for op in ops {
        match op {
            Op::Byte(b) => bytes.push(*b),
            Op::SetPrompt(p) => {
                flush(&mut bytes, &mut s);
                s.push_str(&format!("set_prompt({:?}) ", PROMPTS[*p]));
            }
            Op::Write(c) => {
                flush(&mut bytes, &mut s);
                s.push_str(&format!(
                    "write[{}] ",
                    c.iter().map(|w| format!("{}{:?}", wkind_c(w.kind), w.text)).collect::<Vec<_>>().join(",")
                ));
            }
        }
    }
    flush(&mut bytes, &mut s);
    s.trim_end().to_string()
}

// ------------------------------------------------------------------ shadow decoder

#[derive(Clone, Debug, PartialEq, Eq)]
pub enum Shadow {
    None,
    Key(Key),
    IllFormed(Vec<u8>),
}

pub fn shadow_accept(g: &mut InputGenerator, b: u8) -> Shadow {
    match g.accept(b) {
        None => Shadow::None,
        Some(Input::Control(c)) => Shadow::Key(match c {
            ControlInput::Backspace => Key::Backspace,
            ControlInput::Down => Key::Down,
            ControlInput::Enter => Key::Enter,
            ControlInput::Back => Key::Left,
            ControlInput::Forward => Key::Right,
            ControlInput::Tab => Key::Tab,
            ControlInput::Up => Key::Up,
        }),
        Some(Input::Char(t)) => {
            let bytes = t.as_bytes();
            match core::str::from_utf8(bytes) {
                Ok(s) if s.chars().count() == 1 => Shadow::Key(Key::Char(s.chars().next().unwrap())),
                _ => Shadow::IllFormed(bytes.to_vec()),
            }
        }
    }
}

// ------------------------------------------------------------------ helpers

fn convert_lf(t: &str) -> String {
    t.replace('\n', "\r\n")
}

fn items_to_rec(items: &[Item]) -> Vec<RecArg> {
    items
        .iter()
        .map(|i| match i {
            Item::DoubleDash => RecArg::DoubleDash,
            Item::Long(n) => RecArg::Long(n.as_bytes().to_vec()),
            Item::Short(c) => RecArg::Short(*c as u32),
            Item::Value(v) => RecArg::Value(v.as_bytes().to_vec()),
        })
        .collect()
}

/// What the real tokenizer + classifier make of `line` (used only to attribute a mismatch
/// to the tokenisation seam (C07/C08) instead of the dispatch seam (C01)).
pub fn real_tokens(line: &str) -> Option<(Vec<u8>, Vec<RecArg>)> {
    let mut copy = line.to_string();
    let tokens = Tokens::new(copy.as_mut_str());
    let mut it = tokens.iter();
    let name = it.next()?.as_bytes().to_vec();
    let rest = it.into_tokens();
    let args = ArgList::new(rest)
        .args()
        .map(|a| match a {
            Arg::DoubleDash => RecArg::DoubleDash,
            Arg::LongOption(n) => RecArg::Long(n.as_bytes().to_vec()),
            Arg::ShortOption(c) => RecArg::Short(c as u32),
            Arg::Value(v) => RecArg::Value(v.as_bytes().to_vec()),
        })
        .collect();
    Some((name, args))
}

fn token_shape(line: &str) -> u64 {
    // abstract shape of a line: sequence of char classes, run-length capped
    let mut h: Vec<u64> = vec![];
    let mut last = 99u64;
    let mut run = 0;
    for c in line.chars() {
        let k = match c {
            ' ' => 0,
            '"' => 1,
            '\\' => 2,
            '-' => 3,
            c if (c as u32) < 0x80 => 4,
            c => 4 + c.len_utf8() as u64,
        };
        if k == last {
            run += 1;
            if run > 2 {
                continue;
            }
        } else {
            run = 1;
            last = k;
        }
        h.push(k);
    }
    hash_u64s(&h)
}

pub struct SessionEnv {
    pub enabled: u32,
    pub history_on: bool,
    pub autocomplete_on: bool,
    pub help_on: bool,
}

impl SessionEnv {
    pub fn from_build(enabled: u32) -> Self {
        SessionEnv {
            enabled,
            history_on: cfg!(feature = "history"),
            autocomplete_on: cfg!(feature = "autocomplete"),
            help_on: cfg!(feature = "help"),
        }
    }
}

// ------------------------------------------------------------------ the driver

pub fn run_session_kind(cfg: &SessionCfg, ops: &[Op], env: &SessionEnv, rep: &mut Report) -> SessionResult {
    crate::with_set!(cfg.set, run_session, cfg, ops, env, rep)
}

pub fn run_session<C: Autocomplete + Help>(
    cfg: &SessionCfg,
    ops: &[Op],
    env: &SessionEnv,
    rep: &mut Report,
) -> SessionResult {
    let mut res = SessionResult::default();
    let en = env.enabled;
    let on = |p: u32| en & p != 0;

    // separate exact-size heap allocations so that red-zone tools see every overrun
    // what the buffers hold when the application hands them over is the application's business: garbage, zeroes, text and NULs
    // left by an earlier Cli that used the same memory
    let mut cmd_buf = crate::rig::filled(cfg.cmd, cfg.cmd + 3 * cfg.hist + cfg.prompt);
    let mut hist_buf = crate::rig::filled(cfg.hist, cfg.hist + 5 * cfg.cmd + cfg.prompt + 1);
    let sink = MonSink::new();
    sink.0.borrow_mut().chunk = cfg.chunk;
    let mut proc = RecProc::new(cfg.script.clone(), cfg.set.parse_fn());
    proc.pform = cfg.pform;
    let mut rig: Rig<'_, C> = match Rig::build(&mut cmd_buf, &mut hist_buf, cfg.prompt, cfg.use_new, sink.clone(), proc) {
        Ok(r) => r,
        Err(e) => {
            res.found.push(Found {
                prop: "C03",
                clause: "build-failed",
                tag: "build".into(),
                detail: format!("build returned {:?} with a working sink", e),
                op_index: 0,
            });
            return res;
        }
    };

    // pform & 0x10: the application passes another command set with every line (the set is a type parameter of each
    // process_byte call): the set in force follows the number of Enters seen so far
    let switching = cfg.pform & 0x10 != 0;
    const CYCLE: [SetKind; 5] = [SetKind::FixA, SetKind::Raw, SetKind::FixG, SetKind::FixU, SetKind::FixA];
    let mut cur_set = cfg.set;
    let mut lines_done = 0usize;
    let mut last_was_enter = false;
    let mut names: Vec<String> = cfg.set.names();
    let mut names_help = names.clone();
    names_help.push("help".to_string());

    let mut prompt: &'static str = if cfg.use_new { "$ " } else { PROMPTS[cfg.prompt] };
    let mut term = Term::new();
    let mut shadow = InputGenerator::new();
    let mut ed = RefEditor::new(cfg.cmd);
    let mut hist = RefHistory::new(cfg.hist);
    // C01, "the line as it stood after every insertion, deletion, cursor move ...": the keys as the *statement of C04*
    // reads them off the byte stream (not as the library's decoder does), applied to an ideal editor
    let mut refdec = RefDecoder::new();
    let mut typed = RefEditor::new(cfg.cmd);
    let mut ev_seen = 0usize; // sink events consumed so far
    let mut th: u64 = 0x1234;

    macro_rules! found {
        ($prop:expr, $bit:expr, $clause:expr, $tag:expr, $i:expr, $($arg:tt)*) => {{
            if en & $bit != 0 {
                res.found.push(Found { prop: $prop, clause: $clause, tag: $tag.to_string(), detail: format!($($arg)*), op_index: $i });
            } else {
                rep.count(concat!("deferred_to:", $prop));
            }
        }};
    }

    // bytes written by build()
    {
        let s = sink.0.borrow();
        term.feed(&s.bytes);
        if on(P_C15) {
            rep.eval();
            if !flushed(&s.events[..]) {
                drop(s);
                found!("C15", P_C15, "unflushed-at-return", "build", 0, "build() returned with unflushed bytes");
            }
        }
    }
    ev_seen = sink.0.borrow().events.len().max(ev_seen);
    let mut bytes_seen = sink.0.borrow().bytes.len();
    if on(P_C06) {
        rep.eval();
        if term.gave_up.is_none() && (term.cur_row_trimmed() != prompt.trim_end_matches(' ') || term.col != prompt.chars().count()) {
            found!("C06", P_C06, "row", "after-build", 0, "after build terminal shows {:?} col {}, expected prompt {:?}", term.cur_row_trimmed(), term.col, prompt);
        }
    }

    for (i, op) in ops.iter().enumerate() {
        res.ops_run = i + 1;
        if switching && last_was_enter {
            lines_done += 1;
            cur_set = CYCLE[(lines_done + cfg.cmd) % CYCLE.len()];
            names = cur_set.names();
            names_help = names.clone();
            names_help.push("help".to_string());
            rep.count("session.command_set_switched");
        }
        let pre = rig.editor();
        let pre_rows = if matches!(op, Op::Write(_)) && on(P_C13) { Some((term.all_rows_trimmed(), term.row)) } else { None };
        let log0 = rig.proc.log.len();
        let key = match op {
            Op::Byte(b) => shadow_accept(&mut shadow, *b),
            _ => Shadow::None,
        };
        last_was_enter = matches!(key, Shadow::Key(Key::Enter));
        // what the user sees and what the edit history amounts to, just before an Enter (C01)
        let (visible_pre, ideal_pre): (Option<String>, Option<String>) = if key == Shadow::Key(Key::Enter) && on(P_C01) {
            let row: String = term.rows[term.row].iter().collect();
            let vis = if term.gave_up.is_none() && term.at_boundary() { row.strip_prefix(prompt).map(|s| s.to_string()) } else { None };
            (vis, Some(ed.text()))
        } else {
            (None, None)
        };
        if let Shadow::IllFormed(bytes) = &key {
            rep.eval();
            found!("C02", P_C02, "decoder-emitted-illformed", illformed_class(bytes), i, "decoder passed {} on as a character", show_bytes(bytes));
        }
        let result = match op {
            Op::Byte(b) if switching => rig.byte_set(cur_set, *b),
            Op::Byte(b) => rig.byte(*b),
            Op::Write(c) => rig.write(c),
            Op::SetPrompt(p) => rig.set_prompt(*p),
        };
        let post = rig.editor();
        let post_hist = rig.history();
        // ---- sink events of this call
        let (call_bytes, call_flushed, wrote) = {
            let s = sink.0.borrow();
            let evs = &s.events[ev_seen..];
            let b = s.bytes[bytes_seen..].to_vec();
            let fl = flushed(evs);
            let wrote = !b.is_empty();
            ev_seen = s.events.len();
            bytes_seen = s.bytes.len();
            (b, fl, wrote)
        };
        term.feed(&call_bytes);
        th = hash_u64s(&[th, crate::prng::hash_bytes(i as u64, &call_bytes), call_flushed as u64, crate::prng::hash_bytes(7, &post.line), post.cursor as u64]);
        for r in &rig.proc.log[log0..] {
            th = hash_u64s(&[th, crate::prng::hash_bytes(1, &r.name), r.args.len() as u64]);
        }

        if cfg.cmd > 255 || cfg.hist > 255 {
            // what the large-buffer sessions are for: did quantities actually cross one octet?
            if post.line.len() > 255 {
                rep.count("large.calls_with_line_over_255_bytes");
            }
            if post.cursor > 255 {
                rep.count("large.calls_with_cursor_over_255");
            }
            if term.col > 255 {
                rep.count("large.calls_with_column_over_255");
            }
            if let Some(h) = &post_hist {
                if h.used > 255 {
                    rep.count("large.calls_with_history_over_255_bytes");
                }
                if matches!(key, Shadow::Key(Key::Enter)) && h.used_bytes.iter().filter(|&&b| b == 0).count() > 255 {
                    rep.count("large.enters_with_over_255_stored_entries");
                }
            }
            for r in &rig.proc.log[log0..] {
                if r.args.len() > 255 {
                    rep.count("large.dispatches_with_over_255_items");
                }
            }
        }
        if let Err(e) = result {
            found!("C03", P_C03, "spurious-error", "err-without-fault", i, "API call returned {:?} although the sink never failed", e);
            res.transcript = th;
            return res;
        }

        // ---- C01 against the keys the byte stream spells (reference decoder), independent of the library's decoder
        if let (true, Op::Byte(b)) = (on(P_C01), op) {
            let kref = refdec.accept(*b);
            if !refdec.open_point {
                match kref {
                    Some(Key::Char(c)) => {
                        typed.insert(c);
                    }
                    Some(Key::Backspace) => {
                        typed.backspace();
                    }
                    Some(Key::Left) => {
                        typed.left();
                    }
                    Some(Key::Right) => {
                        typed.right();
                    }
                    // recall and completion replace the line; by what is C10's / C11's business
                    Some(Key::Up) | Some(Key::Down) | Some(Key::Tab) => {
                        if let Ok(l) = core::str::from_utf8(&post.line) {
                            typed.set(l, post.cursor);
                        }
                    }
                    Some(Key::Enter) => {
                        rep.eval();
                        let recs = &rig.proc.log[log0..];
                        let line = typed.text();
                        let mut ok = false;
                        for toks in ref_tokenize_set(&line) {
                            if toks.is_empty() {
                                ok |= recs.is_empty();
                            } else {
                                let items = ref_classify(&toks[1..]);
                                let (is_help, is_open) = if env.help_on { help_shape(&toks[0], &items) } else { (false, false) };
                                if is_help || is_open {
                                    ok |= recs.is_empty();
                                }
                                if !is_help && recs.len() == 1 && recs[0].name == toks[0].as_bytes() && recs[0].args == items_to_rec(&items) {
                                    ok = true;
                                }
                            }
                        }
                        // only where the library's own decoder read something else (otherwise the clauses below judge it)
                        if !ok && (key != Shadow::Key(Key::Enter) || line.trim_end_matches(' ') != ed.text().trim_end_matches(' ')) {
                            found!("C01", P_C01, "dispatch", "differs-from-typed-keys", i, "Enter: the keys spelled by the byte stream leave the line {:?}, but the handler got {}", line, show_recs(recs));
                        }
                        typed.clear();
                    }
                    None => {}
                }
            }
        }

        // ---- invariants (shared by C02/C03)
        rep.eval();
        if on(P_C03) {
            rep.seen(hash_u64s(&[3, cfg.cmd as u64, cfg.hist as u64, op_class(op, &key)]));
        }
        if let Err((class, what)) = check_invariants(&post, post_hist.as_ref()) {
            if class == "utf8" {
                found!("C02", P_C02, "handout-illformed", "hooked-state", i, "{}", what);
            }
            found!("C03", P_C03, "invariant", class, i, "{}", what);
            if class == "cursor" {
                // the editor's cursor ran past the end of the line: no memory at stake yet, so the behavioural
                // monitors keep watching what this does to the session (each reports it in its own terms)
                found!("C05", P_C05, "cursor-out-of-range", op_name(op, &key), i, "{}", what);
            } else {
                // the session ends here; the property whose key / call left the state broken reports it in its own terms
                if let Shadow::Key(Key::Tab) | Shadow::Key(Key::Up) | Shadow::Key(Key::Down) = &key {
                    // recall and completion replace the line: what they leave must still be a line (C05)
                    found!("C05", P_C05, "replaced-line-invalid", format!("{}-{}", op_name(op, &key), class), i, "the line after recall / completion is not a sequence of characters within the buffer: {}", what);
                }
                if what.contains("history") && !matches!(&key, Shadow::Key(Key::Up) | Shadow::Key(Key::Down)) {
                    // whatever call broke the stored entries (normally the Enter that recorded a line): they are what
                    // Up / Down will show
                    found!("C10", P_C10, "stored", format!("invalid-state-{}", class), i, "the stored history is no longer a sequence of recorded lines after {}: {}", op_name(op, &key), what);
                }
                match (&key, op) {
                    (Shadow::Key(Key::Tab), _) => found!("C11", P_C11, "completion", format!("invalid-line-{}", class), i, "Tab left the edited line in an invalid state: {}", what),
                    (Shadow::Key(Key::Up), _) | (Shadow::Key(Key::Down), _) => found!("C10", P_C10, "recall", format!("invalid-state-{}", class), i, "recall left the line / history in an invalid state: {}", what),
                    (Shadow::Key(Key::Enter), _) => found!("C01", P_C01, "after-enter", format!("invalid-state-{}", class), i, "Enter left the line / history in an invalid state: {}", what),
                    (Shadow::Key(_), _) => found!("C05", P_C05, "lockstep", format!("invalid-line-{}", class), i, "the key left the edited line in an invalid state: {}", what),
                    (_, Op::Write(_)) => found!("C13", P_C13, "write-changed-line", format!("invalid-line-{}", class), i, "Cli::write left the edited line in an invalid state: {}", what),
                    (_, Op::SetPrompt(_)) => found!("C06", P_C06, "set-prompt-changed-line", format!("invalid-line-{}", class), i, "set_prompt left the edited line in an invalid state: {}", what),
                    _ => {}
                }
                res.transcript = th;
                return res;
            }
        }
        if on(P_C02) {
            rep.eval();
            rep.count("c02.handout.hooked_states");
            if !call_bytes.is_empty() {
                rep.count("c02.handout.echo_calls");
                rep.seen(hash_u64s(&[2, 0, crate::prng::hash_bytes(0, &call_bytes[..call_bytes.len().min(6)])]));
            }
            if !call_bytes.is_empty() && core::str::from_utf8(&call_bytes).is_err() {
                found!("C02", P_C02, "handout-illformed", "echo", i, "bytes emitted by one call are not UTF-8: {}", show_bytes(&call_bytes));
            }
            for r in &rig.proc.log[log0..] {
                rep.eval();
                rep.count("c02.handout.handler_records");
                rep.seen(hash_u64s(&[2, 1, token_shape(&String::from_utf8_lossy(&pre.line))]));
                let mut bad = core::str::from_utf8(&r.name).is_err();
                for a in &r.args {
                    bad |= match a {
                        RecArg::Long(n) => core::str::from_utf8(n).is_err(),
                        RecArg::Value(n) => core::str::from_utf8(n).is_err(),
                        RecArg::Short(c) => char::from_u32(*c).is_none(),
                        RecArg::DoubleDash => false,
                    };
                }
                if bad {
                    found!("C02", P_C02, "handout-illformed", "handler", i, "handler received ill-formed text: name {} args {:?}", show_bytes(&r.name), r.args);
                }
            }
        }
        if matches!(key, Shadow::IllFormed(_)) {
            res.transcript = th;
            return res;
        }
        let pre_line = String::from_utf8(pre.line.clone()).unwrap_or_default();
        let post_line = String::from_utf8(post.line.clone()).unwrap_or_default();
        let inside = pre.cursor < pre_line.chars().count();

        // ---- C15: everything written has been flushed
        if on(P_C15) {
            rep.eval();
            if wrote {
                rep.count("c15.calls_that_wrote");
                rep.seen(hash_u64s(&[15, op_class(op, &key), inside as u64, (rig.proc.log.len() > log0) as u64, call_bytes.len().min(40) as u64]));
            }
            if !call_flushed {
                found!("C15", P_C15, "unflushed-at-return", op_name(op, &key), i, "call returned Ok with bytes written after the last flush");
            }
        }

        // ---- C01 (a): nothing but Enter dispatches
        let is_enter = key == Shadow::Key(Key::Enter);
        if !is_enter && rig.proc.log.len() != log0 {
            rep.eval();
            found!("C01", P_C01, "dispatch-without-enter", op_name(op, &key), i, "handler invoked by {}", op_name(op, &key));
        }

        match (&key, op) {
            (_, Op::Write(calls)) => {
                rep.count("op.write");
                // C13: line and cursor intact
                if on(P_C13) {
                    rep.eval();
                    if post.line != pre.line || post.cursor != pre.cursor {
                        found!("C13", P_C13, "write-changed-line", "line", i, "Cli::write changed the edited line {:?}/{} -> {:?}/{}", pre_line, pre.cursor, post_line, post.cursor);
                    }
                    let t: String = calls.iter().map(|c| c.logical()).collect();
                    let tconv = convert_lf(&t);
                    let needs_break = !t.is_empty() && !t.ends_with('\n');
                    let tprime = if needs_break { format!("{}\r\n", tconv) } else { tconv.clone() };
                    let unpinned = calls.iter().any(|c| c.kind.unpinned());
                    if unpinned {
                        rep.count("c13.calls_with_library_layout");
                    }
                    rep.seen(hash_u64s(&[13, token_shape(&t), calls.len() as u64, inside as u64, pre_line.is_empty() as u64, (pre.line.len() == cfg.cmd) as u64]));
                    rep.count("c13.write_calls");
                    if inside {
                        rep.count("c13.write_with_cursor_inside");
                    }
                    // bytes: converted text appears contiguously
                    if unpinned {
                        // list elements / titles are laid out by the library: the bytes are not compared; that the prompt and
                        // the line come back intact below the output is C06's row / column clause on this very call
                    } else if !contains(&call_bytes, tconv.as_bytes()) {
                        found!("C13", P_C13, "write-text-altered", lf_tag(calls), i, "sink bytes {} do not contain the text {:?} with LF->CRLF", show_bytes(&call_bytes), t);
                    } else if term.gave_up.is_some() || !Term::understands(tprime.as_bytes()) {
                        // the text holds bytes the emulator does not interpret (ESC, TAB, NUL, ...): what *follows* the text must still
                        // put prompt + line on a fresh line with the cursor restored. A fresh emulator that stands at column 1 when
                        // the text left the line open (so that a missing line break shows) is fed the bytes after the text.
                        if !tconv.is_empty() {
                            rep.eval();
                            rep.count("c13.write_tail_checked");
                            // the text may also occur inside what the library writes around it (a lone CR, say): some occurrence
                            // must be followed by a proper redraw
                            let want = format!("{}{}", prompt, post_line);
                            let want_row = if needs_break { 1 } else { 0 };
                            let mut verdicts: Vec<Result<(), String>> = vec![];
                            for pos in (0..=call_bytes.len() - tconv.len()).filter(|&p| &call_bytes[p..p + tconv.len()] == tconv.as_bytes()) {
                                let after = &call_bytes[pos + tconv.len()..];
                                let mut fresh = Term::new();
                                if needs_break {
                                    fresh.feed(b"#");
                                }
                                fresh.feed(after);
                                if fresh.gave_up.is_some() || !fresh.at_boundary() {
                                    continue;
                                }
                                let rows = fresh.all_rows_trimmed();
                                if fresh.row != want_row || fresh.cur_row_trimmed() != want.trim_end_matches(' ') || (needs_break && rows[0] != "#") {
                                    verdicts.push(Err(format!("after the text {:?} the bytes {} leave the rows {:?} (cursor row {}), expected the prompt and the line {:?} on {}", t, show_bytes(after), tail(&rows, 3), fresh.row, want, if needs_break { "the next row" } else { "the row the text ended on" })));
                                } else if fresh.col != prompt.chars().count() + post.cursor {
                                    verdicts.push(Err(format!("after write the terminal cursor is at column {}, the editor cursor at {}", fresh.col, prompt.chars().count() + post.cursor)));
                                } else {
                                    verdicts.push(Ok(()));
                                }
                            }
                            if !verdicts.is_empty() && verdicts.iter().all(|v| v.is_err()) {
                                found!("C13", P_C13, "write-rows", format!("after-raw-text-{}", lf_tag(calls)), i, "{}", verdicts[0].clone().unwrap_err());
                            }
                        }
                    } else if term.gave_up.is_none() {
                        // rows: before-rows with the in-progress row replaced by rows(T') + prompt+line
                        let (before_rows, before_row) = pre_rows.clone().unwrap();
                        let mut fresh = Term::new();
                        fresh.feed(tprime.as_bytes());
                        if fresh.gave_up.is_none() {
                            let mut expect: Vec<String> = before_rows[..before_row].to_vec();
                            let fr = fresh.all_rows_trimmed();
                            expect.extend_from_slice(&fr[..fr.len() - 1]);
                            let last_extra = fr[fr.len() - 1].clone();
                            expect.push(format!("{}{}", prompt, post_line).trim_end_matches(' ').to_string());
                            let got = term.all_rows_trimmed();
                            let got_upto: Vec<String> = got[..(term.row + 1).min(got.len())].to_vec();
                            if !last_extra.is_empty() || fresh.col != 0 {
                                // cannot happen: T' ends with CR LF or is empty
                                res.inconclusive = Some("fresh emulator not at column 0".into());
                            } else if got_upto != expect {
                                found!("C13", P_C13, "write-rows", lf_tag(calls), i, "terminal rows after write {:?}, expected {:?}", tail(&got_upto, 4), tail(&expect, 4));
                            } else if term.col != prompt.chars().count() + post.cursor {
                                found!("C13", P_C13, "write-cursor", if inside { "inside" } else { "at-end" }, i, "after write the terminal cursor is at column {}, the editor cursor at {}", term.col, prompt.chars().count() + post.cursor);
                            }
                        }
                    }
                }
                if on(P_C05) {
                    rep.eval();
                    if post.line != pre.line || post.cursor != pre.cursor {
                        rep.count("deferred_to:C13");
                    }
                }
            }
            (_, Op::SetPrompt(p)) => {
                rep.count("op.set_prompt");
                prompt = PROMPTS[*p];
                if on(P_C06) {
                    rep.eval();
                    if post.line != pre.line || post.cursor != pre.cursor {
                        found!("C06", P_C06, "set-prompt-changed-line", "line", i, "set_prompt changed the edited line");
                    }
                }
            }
            (Shadow::None, _) => {
                rep.count("key.none");
                if on(P_C05) {
                    rep.eval();
                    if post.line != pre.line || post.cursor != pre.cursor {
                        found!("C05", P_C05, "changed-without-key", "no-key", i, "byte that completes no key changed the line");
                    }
                }
            }
            (Shadow::Key(k), _) => {
                // ---------- C05 lockstep
                match k {
                    Key::Char(c) => {
                        let acc = ed.insert(*c);
                        rep.count(if acc { "c05.insert.accepted" } else { "c05.insert.rejected" });
                        if acc && inside {
                            rep.count("c05.insert.inside");
                        }
                        hist.touched();
                    }
                    Key::Backspace => {
                        if ed.backspace() {
                            rep.count("c05.backspace.effective");
                        } else {
                            rep.count("c05.backspace.at_start");
                        }
                        hist.touched();
                    }
                    Key::Left => {
                        if !ed.left() {
                            rep.count("c05.left.clamped");
                        } else {
                            rep.count("c05.left.moved");
                        }
                        hist.touched();
                    }
                    Key::Right => {
                        if !ed.right() {
                            rep.count("c05.right.clamped");
                        } else {
                            rep.count("c05.right.moved");
                        }
                        hist.touched();
                    }
                    Key::Up | Key::Down | Key::Tab => {
                        // the line is replaced; what by is judged by C10/C11. (validity: invariants)
                        if post.line.len() > cfg.cmd {
                            found!("C05", P_C05, "over-capacity", "replace", i, "line of {} bytes in a {} byte buffer", post.line.len(), cfg.cmd);
                        }
                        ed.set(&post_line, post.cursor);
                    }
                    Key::Enter => {
                        ed.clear();
                    }
                }
                if on(P_C05) && !matches!(k, Key::Enter | Key::Up | Key::Down | Key::Tab) {
                    rep.eval();
                    let widths: u64 = pre_line.chars().take(6).fold(0, |a, c| a * 5 + c.len_utf8() as u64);
                    rep.seen(hash_u64s(&[5, cfg.cmd as u64, pre.line.len() as u64, pre.cursor as u64, widths, key_class(k)]));
                    if post_line != ed.text() || post.cursor != ed.cursor {
                        found!("C05", P_C05, "lockstep", key_tag(k, inside, &pre, cfg.cmd), i, "after {:?} on {:?}/{} the line is {:?}/{}, ideal editor has {:?}/{}", k, pre_line, pre.cursor, post_line, post.cursor, ed.text(), ed.cursor);
                        ed.set(&post_line, post.cursor);
                    }
                }

                // ---------- C10 history
                match k {
                    Key::Up | Key::Down => {
                        res.touched |= 1;
                        let up = *k == Key::Up;
                        if !env.history_on {
                            rep.eval();
                            if post != pre || wrote {
                                found!("C16", P_C16, "disabled-history-acts", if up { "up" } else { "down" }, i, "history is disabled but {:?} changed the line or wrote {} bytes", k, call_bytes.len());
                            }
                        } else if on(P_C10) {
                            rep.eval();
                            let exp = hist.expected(up);
                            if !hist.navigate(up, &pre.line, &post.line) {
                                let tag = nav_tag(up, &exp, &pre.line, &post.line);
                                found!("C10", P_C10, "recall", tag, i, "{:?} on line {:?} shows {:?}; allowed: {}", k, pre_line, post_line, show_shown(&exp));
                                // resynchronise: forget navigation
                                for s in hist.states.iter_mut() {
                                    s.nav = None;
                                }
                            } else {
                                rep.count(if up { "c10.up" } else { "c10.down" });
                                if post.line == pre.line {
                                    rep.count(if up { "c10.up.at_oldest_or_empty" } else { "c10.down.no_change" });
                                }
                                if !up && post.line.is_empty() && !pre.line.is_empty() {
                                    rep.count("c10.down.past_newest");
                                }
                                rep.seen(hash_u64s(&[10, cfg.hist as u64, hist.states[0].entries.len() as u64, up as u64, hist.states[0].nav.map(|x| x as u64 + 1).unwrap_or(0), post.line.len() as u64]));
                            }
                        } else {
                            let _ = hist.navigate(up, &pre.line, &post.line);
                        }
                    }
                    Key::Tab => {
                        res.touched |= 2;
                        hist.touched();
                        if !env.autocomplete_on {
                            rep.eval();
                            if post != pre || wrote {
                                found!("C16", P_C16, "disabled-autocomplete-acts", "tab", i, "autocomplete is disabled but Tab changed the line or wrote {} bytes", call_bytes.len());
                            }
                        } else if on(P_C11) {
                            rep.eval();
                            // with the help feature off the statement does not say whether `help` is still completed
                            let mut allowed = ref_complete(&pre_line, inside, &names_help, cfg.cmd).0;
                            if !env.help_on {
                                for a in ref_complete(&pre_line, inside, &names, cfg.cmd).0 {
                                    if !allowed.contains(&a) {
                                        allowed.push(a);
                                    }
                                }
                            }
                            let (_, class, nmatch) = ref_complete(&pre_line, inside, &names_help, cfg.cmd);
                            rep.seen(hash_u64s(&[11, cfg.set as u64, token_shape(&pre_line), inside as u64, class.clone() as u64, nmatch.min(3) as u64]));
                            if post_line != pre_line {
                                rep.count("c11.completed");
                            }
                            if !allowed.contains(&post_line) {
                                found!("C11", P_C11, "completion", format!("{:?}-{}", class, nmatch.min(2)), i, "Tab on {:?} (cursor {}) gives {:?}; allowed {:?} (capacity {})", pre_line, pre.cursor, post_line, allowed, cfg.cmd);
                            }
                            let kept = pre_line.trim_end_matches(' ');
                            if !post_line.starts_with(kept) {
                                found!("C11", P_C11, "altered-typed-text", "prefix", i, "Tab turned {:?} into {:?}", pre_line, post_line);
                            }
                        }
                    }
                    _ => {}
                }

                // ---------- Enter: C01, C10 submit, C13 framing
                if *k == Key::Enter {
                    rep.count("key.enter");
                    let recs: Vec<Rec> = rig.proc.log[log0..].to_vec();
                    // prompt change requested by the handler takes effect when it returns
                    for r in &recs {
                        if let Some(pi) = r.played {
                            if let Some(p) = cfg.script[pi].set_prompt {
                                prompt = PROMPTS[p];
                            }
                        }
                    }
                    let alts = ref_tokenize_set(&pre_line);
                    for toks in &alts {
                        if !toks.is_empty() {
                            let (h, o) = help_shape(&toks[0], &ref_classify(&toks[1..]));
                            if h || o {
                                res.touched |= 4;
                            }
                        }
                    }
                    if on(P_C01) {
                        rep.eval();
                        rep.seen(hash_u64s(&[1, size_class(cfg.cmd), token_shape(&pre_line), (pre.line.len() == cfg.cmd) as u64]));
                        if pre.line.len() == cfg.cmd {
                            rep.count("c01.enter_on_full_buffer");
                        }
                        let mut ok = false;
                        let mut open = false;
                        let mut exp_desc = String::new();
                        let mut max_hi = 0usize;
                        for toks in &alts {
                            let (exp_count_lo, exp_count_hi, exp_rec) = if toks.is_empty() {
                                (0, 0, None)
                            } else {
                                let items = ref_classify(&toks[1..]);
                                let (is_help, is_open) = if env.help_on { help_shape(&toks[0], &items) } else { (false, false) };
                                open |= is_open;
                                let r = (toks[0].as_bytes().to_vec(), items_to_rec(&items));
                                if is_help {
                                    (0, 0, Some(r))
                                } else if is_open {
                                    (0, 1, Some(r))
                                } else {
                                    (1, 1, Some(r))
                                }
                            };
                            exp_desc = format!("{} dispatch(es) of {:?}", exp_count_hi, toks);
                            max_hi = max_hi.max(exp_count_hi);
                            if recs.len() < exp_count_lo || recs.len() > exp_count_hi {
                                continue;
                            }
                            if recs.len() == 1 {
                                let (n, a) = exp_rec.unwrap();
                                if recs[0].name == n && recs[0].args == a {
                                    ok = true;
                                }
                            } else {
                                ok = true;
                            }
                        }
                        let _ = open;
                        if recs.is_empty() {
                            rep.count("c01.enter.suppressed");
                            if alts[0].is_empty() {
                                rep.count("c01.enter.empty_line");
                            }
                        } else {
                            rep.count("c01.enter.dispatched");
                        }
                        if !ok {
                            // attribute: tokenisation rule or dispatch?
                            let real = real_tokens(&pre_line);
                            let via_tokenizer = match (&real, recs.len()) {
                                (Some((n, a)), 1) => recs[0].name == *n && recs[0].args == *a,
                                (None, 0) => true,
                                _ => false,
                            };
                            let count_only = recs.len() > 1 || (recs.len() == 1 && real.is_none());
                            if recs.len() > max_hi {
                                // more dispatches than any reading of the line allows: a help request (or an empty line) reached the handler
                                found!("C01", P_C01, "dispatch", if recs.len() == 1 { "dispatched-what-must-not-be" } else { "multiple-dispatch" }, i, "Enter on {:?}: handler got {}, expected {}", pre_line, show_recs(&recs), exp_desc);
                            } else if via_tokenizer && !count_only && !(recs.is_empty() && !alts[0].is_empty()) {
                                rep.count("deferred_to:C07/C08");
                            } else {
                                let tag = if recs.len() > 1 { "multiple-dispatch" } else if recs.is_empty() { "no-dispatch" } else { "wrong-tokens" };
                                found!("C01", P_C01, "dispatch", tag, i, "Enter on {:?}: handler got {}, expected {}", pre_line, show_recs(&recs), exp_desc);
                            }
                        }
                        // the same against the line the edit history amounts to (ideal editor, re-synchronised only
                        // at recall / completion) and against the line the user sees on the terminal
                        if ok {
                            for (which, line) in [("edit-history", &ideal_pre), ("visible-line", &visible_pre)] {
                                if let Some(l) = line {
                                    if l.trim_end_matches(' ') == pre_line.trim_end_matches(' ') {
                                        continue;
                                    }
                                    rep.eval();
                                    let mut ok2 = false;
                                    for toks in ref_tokenize_set(l) {
                                        if toks.is_empty() {
                                            ok2 |= recs.is_empty();
                                        } else {
                                            let items = ref_classify(&toks[1..]);
                                            let (is_help, is_open) = if env.help_on { help_shape(&toks[0], &items) } else { (false, false) };
                                            if is_help || is_open {
                                                ok2 |= recs.is_empty();
                                            }
                                            if !is_help && recs.len() == 1 && recs[0].name == toks[0].as_bytes() && recs[0].args == items_to_rec(&items) {
                                                ok2 = true;
                                            }
                                        }
                                    }
                                    if !ok2 {
                                        found!("C01", P_C01, "dispatch", format!("differs-from-{}", which), i, "Enter: the {} is {:?} but the handler got {} (the edit buffer held {:?})", which, l, show_recs(&recs), pre_line);
                                    }
                                }
                            }
                        }
                        // (d) line empty afterwards
                        rep.eval();
                        if !post.line.is_empty() || post.cursor != 0 {
                            found!("C01", P_C01, "line-not-cleared", "after-enter", i, "after Enter the line is {:?}/{}", post_line, post.cursor);
                        }
                        // (e) exactly one fresh prompt: bytes after the last CR LF are the prompt
                        rep.eval();
                        let tailb = after_last_crlf(&call_bytes);
                        if tailb != Some(prompt.as_bytes()) {
                            found!("C01", P_C01, "prompt-after-enter", "prompt", i, "Enter wrote {} ; after the last CR LF expected exactly the prompt {:?}", show_bytes(&call_bytes), prompt);
                        }
                    }
                    // C10 submit
                    if env.history_on {
                        let info = hist.submit(&pre.line);
                        if let Some(h) = &post_hist {
                            let entries = hist_entries(h);
                            if on(P_C10) {
                                rep.eval();
                                hist_evidence(rep, &info, cfg.hist, &entries);
                            }
                            if !hist.observe_entries(&entries) {
                                let exp: Vec<Vec<String>> = hist.states.iter().map(|s| s.entries.iter().map(|e| show_bytes(e)).collect()).collect();
                                found!("C10", P_C10, "stored-entries", store_tag(&info), i, "after submitting {:?} into a {} byte history the stored lines are {:?}; allowed {:?}", pre_line, cfg.hist, entries.iter().map(|e| show_bytes(e)).collect::<Vec<_>>(), exp);
                                // resynchronise on what is stored
                                hist.states = vec![HistState { entries, nav: None }];
                            }
                        }
                    }
                    // C13: handler output framing, byte exact
                    if on(P_C13) && recs.len() == 1 && recs[0].played.is_some() && !cfg.script[recs[0].played.unwrap()].writes.iter().any(|c| c.kind.unpinned()) {
                        rep.eval();
                        let act = &cfg.script[recs[0].played.unwrap()];
                        let t: String = act.writes.iter().map(|c| c.logical()).collect();
                        let tconv = convert_lf(&t);
                        let needs_break = !t.is_empty() && !t.ends_with('\n');
                        let mut tail_exp = tconv.clone().into_bytes();
                        if needs_break {
                            tail_exp.extend_from_slice(b"\r\n");
                        }
                        if act.reject {
                            // the handler's text keeps its own lines; the library's error line follows on a line of its own
                            tail_exp.extend_from_slice(b"error: unknown command\r\n");
                            rep.count("c13.handler_output_then_rejected");
                        }
                        tail_exp.extend_from_slice(prompt.as_bytes());
                        rep.count("c13.handler_outputs");
                        if !t.is_empty() {
                            rep.count("c13.handler_outputs_nonempty");
                        }
                        rep.seen(hash_u64s(&[131, token_shape(&t), act.writes.len() as u64, needs_break as u64]));
                        if !call_bytes.ends_with(&tail_exp) {
                            found!("C13", P_C13, "handler-framing", lf_tag(&act.writes), i, "Enter wrote {} ; expected it to end with {}", show_bytes(&call_bytes), show_bytes(&tail_exp));
                        } else {
                            let prefix = &call_bytes[..call_bytes.len() - tail_exp.len()];
                            let mut f = Term::new();
                            f.col = 5;
                            f.feed(prefix);
                            if f.gave_up.is_none() && !(f.row == 1 && f.col == 0 && f.all_rows_trimmed().iter().all(|r| r.is_empty())) {
                                found!("C13", P_C13, "handler-framing", "line-start", i, "output does not start on a fresh line: prefix {}", show_bytes(prefix));
                            }
                        }
                    }
                }
            }
            (Shadow::IllFormed(_), _) => {}
        }

        // ---- C06: terminal shows prompt + line, cursor included
        if on(P_C06) {
            if let Some(why) = &term.gave_up {
                res.inconclusive = Some(format!("emulator gave up: {}", why));
            } else if term.at_boundary() {
                rep.eval();
                let want = format!("{}{}", prompt, post_line);
                let want_t = want.trim_end_matches(' ');
                let want_col = prompt.chars().count() + post.cursor;
                let mid = !matches!(op, Op::Byte(_)) && shadow_mid(&pre, &post);
                let _ = mid;
                rep.seen(hash_u64s(&[6, cfg.cmd as u64, post.line.len() as u64, post.cursor as u64, op_class(op, &key), cfg.prompt as u64]));
                if !matches!(op, Op::Byte(_)) {
                    rep.count(if inside { "c06.injected.cursor_inside" } else { "c06.injected.cursor_at_end" });
                }
                if term.cur_row_trimmed() != want_t {
                    found!("C06", P_C06, "row", format!("{}{}", op_name(op, &key), if inside { "-inside" } else { "" }), i, "terminal row {:?}, expected {:?}", term.cur_row_trimmed(), want_t);
                } else if term.col != want_col {
                    found!("C06", P_C06, "cursor", format!("{}{}", op_name(op, &key), if inside { "-inside" } else { "" }), i, "terminal cursor at column {}, expected {} (row {:?})", term.col, want_col, want_t);
                }
            }
        }
        if res.found.len() > 8 {
            break;
        }
        if i + 1 == ops.len() {
            res.final_state = Some((post.clone(), post_hist.clone()));
        }
    }
    if ops.is_empty() {
        res.final_state = Some((rig.editor(), rig.history()));
    }
    res.transcript = th;
    res
}

fn shadow_mid(_pre: &EdState, _post: &EdState) -> bool {
    false
}

pub fn flushed(evs: &[Ev]) -> bool {
    let mut pending = false;
    for e in evs {
        match e {
            Ev::W(a, b) => {
                if b > a {
                    pending = true
                }
            }
            Ev::F => pending = false,
            _ => {}
        }
    }
    !pending
}

fn contains(hay: &[u8], needle: &[u8]) -> bool {
    needle.is_empty() || hay.windows(needle.len()).any(|w| w == needle)
}

fn after_last_crlf(b: &[u8]) -> Option<&[u8]> {
    if b.len() < 2 {
        return None;
    }
    for i in (0..b.len() - 1).rev() {
        if b[i] == b'\r' && b[i + 1] == b'\n' {
            return Some(&b[i + 2..]);
        }
    }
    None
}

fn tail(v: &[String], n: usize) -> Vec<String> {
    v[v.len().saturating_sub(n)..].to_vec()
}

fn op_class(op: &Op, key: &Shadow) -> u64 {
    match op {
        Op::Write(_) => 20,
        Op::SetPrompt(_) => 21,
        Op::Byte(_) => match key {
            Shadow::None => 0,
            Shadow::IllFormed(_) => 1,
            Shadow::Key(k) => 2 + key_class(k),
        },
    }
}

fn key_class(k: &Key) -> u64 {
    match k {
        Key::Char(c) => c.len_utf8() as u64,
        Key::Backspace => 5,
        Key::Left => 6,
        Key::Right => 7,
        Key::Up => 8,
        Key::Down => 9,
        Key::Tab => 10,
        Key::Enter => 11,
    }
}

pub fn op_name(op: &Op, key: &Shadow) -> &'static str {
    match op {
        Op::Write(_) => "write",
        Op::SetPrompt(_) => "set_prompt",
        Op::Byte(_) => match key {
            Shadow::None => "no-key",
            Shadow::IllFormed(_) => "illformed",
            Shadow::Key(k) => match k {
                Key::Char(_) => "char",
                Key::Backspace => "backspace",
                Key::Left => "left",
                Key::Right => "right",
                Key::Up => "up",
                Key::Down => "down",
                Key::Tab => "tab",
                Key::Enter => "enter",
            },
        },
    }
}

fn key_tag(k: &Key, inside: bool, pre: &EdState, cap: usize) -> String {
    let name = match k {
        Key::Char(c) => format!("insert{}", c.len_utf8()),
        Key::Backspace => "backspace".into(),
        Key::Left => "left".into(),
        Key::Right => "right".into(),
        _ => "other".into(),
    };
    format!("{}{}{}", name, if inside { "-inside" } else { "-end" }, if pre.line.len() == cap { "-full" } else { "" })
}

fn size_class(n: usize) -> u64 {
    match n {
        0 => 0,
        1 => 1,
        2..=4 => 2,
        5..=8 => 3,
        9..=16 => 4,
        _ => 5,
    }
}

fn lf_tag(calls: &[WCall]) -> String {
    let has_ln = calls.iter().any(|c| c.kind == WKind::Ln && c.text.contains('\n'));
    let t: String = calls.iter().map(|c| c.logical()).collect();
    if has_ln {
        "lf-inside-writeln".into()
    } else if t.is_empty() {
        "empty".into()
    } else if t.ends_with('\n') {
        "ends-with-lf".into()
    } else {
        "no-final-lf".into()
    }
}

fn show_recs(recs: &[Rec]) -> String {
    if recs.is_empty() {
        return "no dispatch".into();
    }
    recs.iter()
        .map(|r| {
            format!(
                "{:?}{:?}",
                show_bytes(&r.name),
                r.args
                    .iter()
                    .map(|a| match a {
                        RecArg::DoubleDash => "--".to_string(),
                        RecArg::Long(n) => format!("--{}", show_bytes(n)),
                        RecArg::Short(c) => format!("-U+{:04X}", c),
                        RecArg::Value(v) => format!("{:?}", show_bytes(v)),
                    })
                    .collect::<Vec<_>>()
            )
        })
        .collect::<Vec<_>>()
        .join(" + ")
}

fn show_shown(v: &[Shown]) -> String {
    v.iter()
        .map(|s| match s {
            Shown::Unchanged => "line unchanged".to_string(),
            Shown::Line(l) => format!("{:?}", show_bytes(l)),
        })
        .collect::<Vec<_>>()
        .join(" | ")
}

fn nav_tag(up: bool, exp: &[Shown], before: &[u8], after: &[u8]) -> String {
    let dir = if up { "up" } else { "down" };
    let exp_change = exp.iter().all(|s| matches!(s, Shown::Line(_)));
    if before == after && exp_change {
        format!("{}-no-recall", dir)
    } else if exp.iter().all(|s| *s == Shown::Unchanged) {
        format!("{}-moved-past-end", dir)
    } else {
        format!("{}-wrong-entry", dir)
    }
}

fn store_tag(info: &SubmitInfo) -> String {
    if info.rejected_empty {
        "empty-line".into()
    } else if info.rejected_long {
        "too-long".into()
    } else if info.dedup_newest || info.dedup_older {
        if info.evicted > 0 { "dedupe+evict".into() } else { "dedupe".into() }
    } else if info.evicted > 0 {
        "evict".into()
    } else {
        "append".into()
    }
}

fn hist_evidence(rep: &mut Report, info: &SubmitInfo, budget: usize, entries: &[Vec<u8>]) {
    if info.rejected_empty {
        rep.count("c10.submit.empty");
    }
    if info.rejected_long {
        rep.count("c10.submit.too_long");
    }
    if info.recorded {
        rep.count("c10.submit.recorded");
    }
    if info.dedup_newest {
        rep.count("c10.dedupe.newest");
    }
    if info.dedup_older {
        rep.count("c10.dedupe.older");
    }
    match info.evicted {
        0 => {}
        1 => rep.count("c10.evict.1"),
        2 => rep.count("c10.evict.2"),
        _ => rep.count("c10.evict.3plus"),
    }
    if info.whole_evicted {
        rep.count("c10.evict.whole");
    }
    let mut lens: Vec<u64> = entries.iter().map(|e| e.len() as u64).collect();
    lens.sort_unstable();
    let kind = info.rejected_empty as u64 | (info.rejected_long as u64) << 1 | (info.dedup_newest as u64) << 2 | (info.dedup_older as u64) << 3 | (info.evicted.min(3) as u64) << 4;
    let mut v = vec![100, budget as u64, kind];
    v.extend(lens);
    rep.seen(hash_u64s(&v));
}

pub fn session_sample(cfg: &SessionCfg, ops: &[Op]) -> J {
    J::obj()
        .set("cmd_buffer", J::Int(cfg.cmd as i64))
        .set("history_buffer", J::Int(cfg.hist as i64))
        .set("prompt", J::s(PROMPTS[cfg.prompt]))
        .set("set", J::s(cfg.set.name()))
        .set("ops", J::s(show_ops(ops)))
}
