//! Generated command declarations: a grammar covering every attribute the derive macros read,
//! a seeded generator, and the emitter that writes the Rust source (with the derives) for a batch.
//! The same generator is linked into the batch binary, so source and spec can never disagree.
use crate::prng::Rng;
use std::fmt::Write;

#[derive(Clone, Copy, Debug, PartialEq, Eq, Hash)]
pub enum Ty {
    U8,
    U16,
    U32,
    U64,
    U128,
    Usize,
    I8,
    I16,
    I32,
    I64,
    I128,
    Isize,
    F32,
    F64,
    Bool,
    Char,
    Str,
    /// application-defined type (vcore::usertypes::Hex)
    Hex,
    /// application-defined borrowing type (vcore::usertypes::Tag<'a>)
    Tag,
}

pub const ALL_TYS: [Ty; 19] = [
    Ty::U8, Ty::U16, Ty::U32, Ty::U64, Ty::U128, Ty::Usize, Ty::I8, Ty::I16, Ty::I32, Ty::I64, Ty::I128, Ty::Isize, Ty::F32, Ty::F64, Ty::Bool, Ty::Char, Ty::Str,
    Ty::Hex, Ty::Tag,
];

impl Ty {
    pub fn name(&self) -> &'static str {
        match self {
            Ty::U8 => "u8",
            Ty::U16 => "u16",
            Ty::U32 => "u32",
            Ty::U64 => "u64",
            Ty::U128 => "u128",
            Ty::Usize => "usize",
            Ty::I8 => "i8",
            Ty::I16 => "i16",
            Ty::I32 => "i32",
            Ty::I64 => "i64",
            Ty::I128 => "i128",
            Ty::Isize => "isize",
            Ty::F32 => "f32",
            Ty::F64 => "f64",
            Ty::Bool => "bool",
            Ty::Char => "char",
            Ty::Str => "&'a str",
            Ty::Hex => "vcore::usertypes::Hex",
            Ty::Tag => "vcore::usertypes::Tag<'a>",
        }
    }
    pub fn borrows(&self) -> bool {
        matches!(self, Ty::Str | Ty::Tag)
    }
    /// what ParseValueError.expected carries
    pub fn expected_name(&self) -> &'static str {
        match self {
            Ty::Str => "&str",
            Ty::Hex => "hex number",
            Ty::Tag => "#tag",
            t => t.name(),
        }
    }
}

#[derive(Clone, Debug, PartialEq)]
pub enum DefaultSpec {
    /// #[arg(default_value = "...")]: parsed with the field type's parser when the argument is absent
    Text(String),
    /// #[arg(default_value_t)]: Default::default()
    TypedBare,
    /// #[arg(default_value_t = expr)]: (source expression, the value as a string the type parser accepts)
    TypedExpr(String, String),
}

#[derive(Clone, Debug, PartialEq)]
pub enum FieldKind {
    Positional,
    /// named: long and/or short; a bool-typed named field is a flag
    Named { long: Option<String>, short: Option<char>, long_explicit: bool, short_explicit: bool },
}

#[derive(Clone, Debug, PartialEq)]
pub struct FieldSpec {
    pub name: String,
    pub ty: Ty,
    pub optional: bool,
    pub kind: FieldKind,
    pub default: Option<DefaultSpec>,
    pub value_name: Option<String>,
    pub doc: Vec<Vec<String>>, // paragraphs of lines
}

impl FieldSpec {
    pub fn is_flag(&self) -> bool {
        matches!(self.kind, FieldKind::Named { .. }) && self.ty == Ty::Bool
    }
    pub fn is_positional(&self) -> bool {
        self.kind == FieldKind::Positional
    }
    pub fn value_name_eff(&self) -> String {
        self.value_name.clone().unwrap_or_else(|| self.name.to_uppercase())
    }
    /// `<NAME>` / `[NAME]`
    pub fn value_usage(&self) -> String {
        if self.optional {
            format!("[{}]", self.value_name_eff())
        } else {
            format!("<{}>", self.value_name_eff())
        }
    }
    /// usage name used by MissingRequiredArgument: `<FILE>`, `--file <FILE>`, `-f <FILE>`
    pub fn usage_name(&self) -> String {
        match &self.kind {
            FieldKind::Positional => self.value_usage(),
            FieldKind::Named { long, short, .. } => {
                let p = long.as_ref().map(|l| format!("--{}", l)).or(short.map(|s| format!("-{}", s))).unwrap();
                if self.is_flag() {
                    p
                } else {
                    format!("{} {}", p, self.value_usage())
                }
            }
        }
    }
}

#[derive(Clone, Debug, PartialEq)]
pub struct SubSpec {
    /// None: tuple variant `Name(Sub)`
    pub field_name: Option<String>,
    pub optional: bool,
    /// index into Decl.enums
    pub enum_idx: usize,
    /// position of the sub-command field among the struct fields (declaration order)
    pub position: usize,
}

#[derive(Clone, Debug, PartialEq)]
pub struct VariantSpec {
    pub ident: String,
    pub name: String,
    pub explicit_name: bool,
    pub fields: Vec<FieldSpec>,
    pub sub: Option<SubSpec>,
    pub doc: Vec<Vec<String>>,
}

impl VariantSpec {
    pub fn is_unit(&self) -> bool {
        self.fields.is_empty() && self.sub.is_none()
    }
    pub fn is_tuple(&self) -> bool {
        self.sub.as_ref().map(|s| s.field_name.is_none()).unwrap_or(false)
    }
}

#[derive(Clone, Debug, PartialEq)]
pub struct EnumSpec {
    pub ident: String,
    pub lifetime: bool,
    pub variants: Vec<VariantSpec>,
    pub help_title: Option<String>,
}

#[derive(Clone, Debug, PartialEq)]
pub enum Member {
    Enum(usize),
    Raw,
}

#[derive(Clone, Debug, PartialEq)]
pub struct GroupMember {
    pub ident: String,
    pub member: Member,
    pub hidden: bool,
}

#[derive(Clone, Debug, PartialEq)]
pub struct GroupSpec {
    pub ident: String,
    pub lifetime: bool,
    pub members: Vec<GroupMember>,
}

#[derive(Clone, Debug, PartialEq)]
pub enum Top {
    Enum(usize),
    Group(GroupSpec),
}

#[derive(Clone, Debug, PartialEq)]
pub struct Decl {
    pub id: usize,
    pub enums: Vec<EnumSpec>,
    pub top: Top,
    /// "full": every attribute kind; "names": unit variants only (cheap, for completion)
    pub flavour: &'static str,
}

impl Decl {
    pub fn top_ident(&self) -> String {
        match &self.top {
            Top::Enum(i) => self.enums[*i].ident.clone(),
            Top::Group(g) => g.ident.clone(),
        }
    }
    pub fn top_lifetime(&self) -> bool {
        match &self.top {
            Top::Enum(i) => self.enums[*i].lifetime,
            Top::Group(g) => g.lifetime,
        }
    }
    /// enums reachable as top-level command sets: (enum idx, hidden, group member ident)
    pub fn top_members(&self) -> Vec<(Member, bool, Option<String>)> {
        match &self.top {
            Top::Enum(i) => vec![(Member::Enum(*i), false, None)],
            Top::Group(g) => g.members.iter().map(|m| (m.member.clone(), m.hidden, Some(m.ident.clone()))).collect(),
        }
    }
    /// names of all commands of all visible groups, in declaration order
    pub fn visible_names(&self) -> Vec<String> {
        let mut v = vec![];
        for (m, hidden, _) in self.top_members() {
            if let (Member::Enum(i), false) = (&m, hidden) {
                v.extend(self.enums[*i].variants.iter().map(|x| x.name.clone()));
            }
        }
        v
    }
    pub fn has_raw_catch_all(&self) -> bool {
        self.top_members().iter().any(|(m, _, _)| *m == Member::Raw)
    }
}

// ------------------------------------------------------------------ generator

const WORDS: [&str; 10] = ["Get", "Set", "Led", "Adc", "Run", "Stop", "Item", "Mode", "Pin", "Log"];
// two names start with `h`: their generated short option is `-h`, which only a build without the help facility can use
// ... and two are not ASCII (Rust identifiers may be): generated long / short / value names derive from them
const FIELD_NAMES: [&str; 16] = ["alpha", "beta", "gamma", "delta", "eps", "zeta", "eta", "theta", "iota_x", "kappa_y", "lam", "mu_nu_xi", "host", "hex_v", "число", "über_v"];
// several syllables share their leading octets (é/ê, €/₭, 向/吐, 𐍈/𐍉): names then diverge inside a character
const NAME_SYL: [&str; 24] = ["a", "b", "c", "d", "g", "s", "t", "é", "ж", "go", "st", "€", "Up", "x_y", "ê", "₭", "向", "吐", "𐍈", "𐍉", "п", "й", "俄", "俊"];

fn kebab_of_camel(id: &str) -> String {
    let mut s = String::new();
    for (i, c) in id.chars().enumerate() {
        if c.is_uppercase() && i > 0 {
            s.push('-');
        }
        s.extend(c.to_lowercase());
    }
    s
}

fn kebab_of_snake(id: &str) -> String {
    id.replace('_', "-")
}

fn gen_cmd_name(rng: &mut Rng, taken: &mut Vec<String>, base_prefix: Option<&str>) -> String {
    loop {
        let mut s = String::new();
        if let Some(p) = base_prefix {
            s.push_str(p);
        }
        // now and then a name far longer than its siblings (column widths, padding and length arithmetic in help output)
        let segs = if rng.chance(4) { if rng.chance(25) { rng.range(130, 170) } else { rng.range(9, 24) } } else { rng.range(1, 3) }; // 1 %: more than 255 bytes
        for k in 0..segs {
            if k > 0 && rng.chance(40) {
                s.push('-');
            }
            s.push_str(NAME_SYL[rng.below(NAME_SYL.len())]);
        }
        if s == "help" || s.starts_with('-') || s.ends_with('-') || taken.contains(&s) || s.is_empty() {
            continue;
        }
        taken.push(s.clone());
        return s;
    }
}

fn gen_doc(rng: &mut Rng, uid: &mut usize) -> Vec<Vec<String>> {
    let mut word = |rng: &mut Rng| {
        *uid += 1;
        format!("{}{}", *rng.pick(&["Doc", "Txt", "Inf"]), *uid)
    };
    match rng.below(6) {
        0 | 1 => vec![],
        2 => vec![vec![format!("{} one.", word(rng))]],
        3 => vec![vec![format!("{} first", word(rng)), format!("{} continues.", word(rng))]],
        4 => vec![vec![format!("{} summary.", word(rng))], vec![format!("{} second paragraph", word(rng)), format!("{} goes on", word(rng))]],
        _ => vec![vec![format!("{} sum..", word(rng))], vec![format!("{} para two.", word(rng))], vec![format!("{} para three", word(rng))]],
    }
}

fn gen_value_literal(rng: &mut Rng, ty: Ty) -> (String, String) {
    // (Rust expression, text the parser accepts)
    match ty {
        Ty::Bool => {
            let b = rng.chance(50);
            (b.to_string(), b.to_string())
        }
        Ty::Char => {
            let c = *rng.pick(&['q', 'z', 'é', '7']);
            (format!("{:?}", c), c.to_string())
        }
        Ty::Str => {
            let s = *rng.pick(&["dflt", "two words", "é€", ""]);
            (format!("{:?}", s), s.to_string())
        }
        Ty::F32 | Ty::F64 => {
            let s = *rng.pick(&["1.5", "0.25", "3.0"]);
            (s.to_string(), s.to_string())
        }
        Ty::Hex => {
            let n = *rng.pick(&[16u32, 255, 0, 0xBEEF]);
            (format!("vcore::usertypes::Hex({})", n), format!("0x{:x}", n))
        }
        Ty::Tag => {
            let t = *rng.pick(&["dflt", "é", "two words"]);
            (format!("vcore::usertypes::Tag({:?})", t), format!("#{}", t))
        }
        Ty::I8 | Ty::I16 | Ty::I32 | Ty::I64 | Ty::I128 | Ty::Isize => {
            let s = *rng.pick(&["7", "-3", "0", "100"]);
            (s.to_string(), s.to_string())
        }
        _ => {
            let s = *rng.pick(&["7", "0", "42", "200"]);
            (s.to_string(), s.to_string())
        }
    }
}

fn gen_fields(rng: &mut Rng, uid: &mut usize, allow_positional: bool, rich: bool) -> Vec<FieldSpec> {
    let n = if rich { rng.range(1, 6) } else { rng.range(0, 3) };
    let mut names: Vec<&str> = FIELD_NAMES.to_vec();
    let mut longs: Vec<String> = vec!["help".into()];
    let mut shorts: Vec<char> = vec![];
    let mut vnames: Vec<String> = vec![];
    let mut out = vec![];
    for _ in 0..n {
        let name = names.remove(rng.below(names.len())).to_string();
        let ty = ALL_TYS[rng.weighted(&[6, 2, 3, 2, 1, 2, 3, 2, 4, 2, 1, 2, 2, 2, 8, 4, 10, 4, 4])];
        let positional = allow_positional && rng.chance(40);
        let kind = if positional {
            FieldKind::Positional
        } else {
            // long / short, generated or explicit
            let mut long = None;
            let mut short = None;
            let mut long_explicit = false;
            let mut short_explicit = false;
            let which = rng.below(3); // 0 both, 1 long only, 2 short only
            if which != 2 {
                if rng.chance(35) {
                    let cand = format!("{}{}", *rng.pick(&["opt", "конф", "x-y", "é", "dry_run", "noCache", "X", "a.b"]), *uid);
                    *uid += 1;
                    long = Some(cand);
                    long_explicit = true;
                } else {
                    long = Some(kebab_of_snake(&name));
                }
            }
            if which != 1 {
                let gen_short = name.chars().next().unwrap();
                if rng.chance(40) || shorts.contains(&gen_short) {
                    let pool = ['x', 'y', 'q', 'w', 'Ю', 'é', '7', 'K', 'V', 'n', 'r', 'u', 'h'];
                    let free: Vec<char> = pool.iter().copied().filter(|c| !shorts.contains(c)).collect();
                    if let Some(c) = free.get(rng.below(free.len().max(1))) {
                        short = Some(*c);
                        short_explicit = true;
                    }
                } else {
                    short = Some(gen_short);
                }
            }
            if long.is_none() && short.is_none() {
                long = Some(kebab_of_snake(&name));
            }
            if let Some(l) = &long {
                if longs.contains(l) {
                    continue;
                }
                longs.push(l.clone());
            }
            if let Some(s) = short {
                if shorts.contains(&s) {
                    short = None;
                    if long.is_none() {
                        continue;
                    }
                } else {
                    shorts.push(s);
                }
            }
            FieldKind::Named { long, short, long_explicit, short_explicit }
        };
        let is_flag = matches!(kind, FieldKind::Named { .. }) && ty == Ty::Bool;
        let optional = if is_flag { rng.chance(10) } else { rng.chance(30) };
        let default = if is_flag || optional || !rng.chance(30) {
            None
        } else {
            Some(match rng.below(3) {
                0 => DefaultSpec::Text(gen_value_literal(rng, ty).1),
                1 => DefaultSpec::TypedBare,
                _ => {
                    let (e, t) = gen_value_literal(rng, ty);
                    DefaultSpec::TypedExpr(e, t)
                }
            })
        };
        let value_name = if rng.chance(25) {
            *uid += 1;
            Some(format!("VAL{}", *uid))
        } else {
            None
        };
        let f = FieldSpec { name, ty, optional, kind, default, value_name, doc: gen_doc(rng, uid) };
        if vnames.contains(&f.value_name_eff()) {
            continue;
        }
        vnames.push(f.value_name_eff());
        out.push(f);
    }
    out
}

struct Builder<'r> {
    rng: &'r mut Rng,
    uid: usize,
    enums: Vec<EnumSpec>,
    did: usize,
}

impl<'r> Builder<'r> {
    fn gen_enum(&mut self, depth: usize, taken: &mut Vec<String>, rich: bool, prefix_mode: bool) -> usize {
        let idx = self.enums.len();
        self.enums.push(EnumSpec { ident: format!("E{}x{}", self.did, idx), lifetime: false, variants: vec![], help_title: None });
        // a name set of more than 256 commands now and then (indices, counts and list lengths beyond one octet)
        let nvar = if rich { self.rng.range(1, 5) } else if depth == 0 && self.rng.chance(3) { self.rng.range(257, 300) } else { self.rng.range(2, 7) };
        let mut idents: Vec<String> = vec![];
        let mut variants = vec![];
        let shared: Option<String> = if prefix_mode { Some(NAME_SYL[self.rng.below(6)].to_string()) } else { None };
        for _ in 0..nvar {
            // ident: CamelCase of two words (so that the generated kebab name is predictable)
            let ident = loop {
                let mut id = format!("{}{}", WORDS[self.rng.below(WORDS.len())], if self.rng.chance(70) { WORDS[self.rng.below(WORDS.len())] } else { "" });
                if nvar > 40 {
                    id = format!("{}N{}", id, idents.len());
                }
                if !idents.contains(&id) {
                    idents.push(id.clone());
                    break id;
                }
            };
            let explicit_name = prefix_mode || nvar > 40 || self.rng.chance(65) || taken.contains(&kebab_of_camel(&ident)) || kebab_of_camel(&ident) == "help";
            let name = if explicit_name {
                let pre = if prefix_mode && self.rng.chance(60) { shared.as_deref() } else { None };
                gen_cmd_name(self.rng, taken, pre)
            } else {
                let n = kebab_of_camel(&ident);
                taken.push(n.clone());
                n
            };
            let shape = if !rich { 0 } else { self.rng.weighted(&[2, 6, if depth < 2 { 3 } else { 0 }, if depth < 2 { 2 } else { 0 }]) };
            let (fields, sub) = match shape {
                0 => (vec![], None),
                1 => (gen_fields(self.rng, &mut self.uid, true, true), None),
                2 => {
                    // struct variant with named options and a sub-command field
                    let fields = gen_fields(self.rng, &mut self.uid, false, false);
                    let mut sub_taken = vec![];
                    let e = self.gen_enum(depth + 1, &mut sub_taken, true, false);
                    let position = self.rng.below(fields.len() + 1);
                    (fields, Some(SubSpec { field_name: Some("cmd".into()), optional: self.rng.chance(35), enum_idx: e, position }))
                }
                _ => {
                    let mut sub_taken = vec![];
                    let e = self.gen_enum(depth + 1, &mut sub_taken, true, false);
                    (vec![], Some(SubSpec { field_name: None, optional: false, enum_idx: e, position: 0 }))
                }
            };
            variants.push(VariantSpec { ident, name, explicit_name, fields, sub, doc: gen_doc(self.rng, &mut self.uid) });
        }
        // lifetime needed?
        let mut lifetime = false;
        for v in &variants {
            if v.fields.iter().any(|f| f.ty.borrows()) {
                lifetime = true;
            }
            if let Some(s) = &v.sub {
                if self.enums[s.enum_idx].lifetime {
                    lifetime = true;
                }
            }
        }
        let help_title = if self.rng.chance(20) { Some(format!("Title{}", idx)) } else { None };
        let e = &mut self.enums[idx];
        e.variants = variants;
        e.lifetime = lifetime;
        e.help_title = help_title;
        idx
    }
}

/// Generate declaration number `id` of the batch for `seed`.
pub fn gen_decl(seed: u64, id: usize, flavour: &'static str) -> Decl {
    let mut rng = Rng::derive(seed ^ 0xDEC1, id as u64, if flavour == "full" { 1 } else { 2 });
    let mut b = Builder { rng: &mut rng, uid: id * 1000, enums: vec![], did: id };
    let rich = flavour == "full";
    let mut taken: Vec<String> = vec![];
    let grouped = b.rng.chance(if rich { 35 } else { 60 });
    let top = if grouped {
        let nmem = b.rng.range(1, 3);
        let mut members = vec![];
        let mut lifetime = false;
        for k in 0..nmem {
            let pm = !rich && b.rng.chance(70);
            let e = b.gen_enum(0, &mut taken, rich, pm);
            lifetime |= b.enums[e].lifetime;
            // any member may be hidden -- all of them, too (then only a catch-all, if any, is visible)
            let hidden = b.rng.chance(15);
            members.push(GroupMember { ident: format!("M{}", k), member: Member::Enum(e), hidden });
        }
        if b.rng.chance(40) {
            let hr = rich && b.rng.chance(50);
            let e = b.gen_enum(0, &mut taken, hr, false);
            lifetime |= b.enums[e].lifetime;
            let pos = b.rng.below(members.len() + 1);
            members.insert(pos, GroupMember { ident: "Hid".into(), member: Member::Enum(e), hidden: true });
        }
        if b.rng.chance(35) {
            lifetime = true;
            members.push(GroupMember { ident: "Other".into(), member: Member::Raw, hidden: false });
        }
        // the derive does not compile for a group without any visible member: keep one (a catch-all will do)
        if members.iter().all(|m| m.hidden) {
            if b.rng.chance(60) {
                lifetime = true;
                members.push(GroupMember { ident: "Other".into(), member: Member::Raw, hidden: false });
            } else {
                members[0].hidden = false;
            }
        }
        Top::Group(GroupSpec { ident: format!("G{}", id), lifetime, members })
    } else {
        let e = b.gen_enum(0, &mut taken, rich, !rich);
        Top::Enum(e)
    };
    let enums = b.enums;
    Decl { id, enums, top, flavour }
}

/// The batch of a (seed, batch index): `n_full` full declarations followed by `n_names` name sets
pub fn gen_batch(seed: u64, batch: usize, n_full: usize, n_names: usize) -> Vec<Decl> {
    let mut v = vec![];
    for i in 0..n_full {
        v.push(gen_decl(seed.wrapping_add(batch as u64 * 7919), i, "full"));
    }
    for i in 0..n_names {
        v.push(gen_decl(seed.wrapping_add(batch as u64 * 7919), n_full + i, "names"));
    }
    v
}

// ------------------------------------------------------------------ emitter

/// spelling choices that do not change what a declaration means are made from a hash of the text concerned (deterministic)
fn spell(s: &str, salt: usize) -> usize {
    let mut h = 0xcbf29ce484222325u64 ^ salt as u64;
    for b in s.bytes() {
        h = (h ^ b as u64).wrapping_mul(0x100000001b3);
    }
    (h >> 17) as usize
}

fn emit_doc(out: &mut String, doc: &[Vec<String>], indent: &str) {
    // unusual but legal shapes of the same paragraphs: several blank lines between paragraphs, a blank line before the first
    // and after the last one, extra blanks around a line (rustdoc's meaning is the same); `#[doc = "..."]` attributes instead
    // of `///` lines; one `/** ... */` block comment (a single attribute whose text has line breaks inside); doc attributes that
    // are not text (`#[doc(alias = "..")]`) in between
    let style = doc.iter().flatten().map(|l| l.len()).sum::<usize>() % 7;
    if doc.is_empty() {
        return;
    }
    if style == 5 {
        // block comment: the first line directly after the opener, the others indented, blank line between paragraphs
        let mut text = String::new();
        for (pi, para) in doc.iter().enumerate() {
            if pi > 0 {
                text.push_str("\n");
            }
            for l in para {
                if !text.is_empty() {
                    text.push('\n');
                    text.push_str(indent);
                    text.push_str("    ");
                }
                text.push_str(l);
            }
        }
        if spell(&text, 19) % 2 == 0 {
            // the text starts on the line after the opener and the closer stands on a line of its own
            let _ = writeln!(out, "{}/**\n{}    {}\n{}*/", indent, indent, text, indent);
        } else {
            let _ = writeln!(out, "{}/** {} */", indent, text);
        }
        return;
    }
    let line = |out: &mut String, l: &str| {
        if style == 4 {
            let _ = writeln!(out, "{}#[doc = {:?}]", indent, if l.is_empty() { String::new() } else { format!(" {}", l) });
        } else if l.is_empty() {
            let _ = writeln!(out, "{}///", indent);
        } else if style == 3 {
            let _ = writeln!(out, "{}///   {}  ", indent, l);
        } else {
            let _ = writeln!(out, "{}/// {}", indent, l);
        }
    };
    if style == 2 {
        line(out, "");
    }
    for (pi, para) in doc.iter().enumerate() {
        if pi > 0 {
            for _ in 0..(if style == 1 || style == 2 { 1 + pi } else { 1 }) {
                line(out, "");
            }
        }
        for (li, l) in para.iter().enumerate() {
            line(out, l);
            if style == 6 && pi == 0 && li == 0 {
                let _ = writeln!(out, "{}#[doc(alias = \"zz\")]", indent);
            }
        }
    }
    if style == 2 {
        line(out, "");
    }
}

/// `Option<T>` under the three paths the macros recognise
fn option_of(t: &str, key: &str) -> String {
    match spell(key, 3) % 5 {
        0 => format!("core::option::Option<{}>", t),
        1 => format!("std::option::Option<{}>", t),
        _ => format!("Option<{}>", t),
    }
}

fn rust_ty(f: &FieldSpec) -> String {
    if f.optional {
        option_of(f.ty.name(), &f.name)
    } else {
        f.ty.name().to_string()
    }
}

fn emit_field(out: &mut String, f: &FieldSpec) {
    emit_doc(out, &f.doc, "        ");
    let mut attrs: Vec<String> = vec![];
    if let FieldKind::Named { long, short, long_explicit, short_explicit } = &f.kind {
        if let Some(s) = short {
            if *short_explicit {
                // a character literal or a one-character string literal
                if spell(&f.name, 1) % 3 == 0 {
                    attrs.push(format!("short = {:?}", s.to_string()));
                } else {
                    attrs.push(format!("short = {:?}", s));
                }
            } else {
                attrs.push("short".into());
            }
        }
        if let Some(l) = long {
            if *long_explicit {
                attrs.push(format!("long = {:?}", l));
            } else {
                attrs.push("long".into());
            }
        }
    }
    match &f.default {
        Some(DefaultSpec::Text(t)) => attrs.push(format!("default_value = {:?}", t)),
        Some(DefaultSpec::TypedBare) => attrs.push("default_value_t".into()),
        Some(DefaultSpec::TypedExpr(e, _)) => attrs.push(format!("default_value_t = {}", e)),
        None => {}
    }
    if let Some(v) = &f.value_name {
        attrs.push(format!("value_name = {:?}", v));
    }
    if !attrs.is_empty() {
        // the arguments in any order, in one attribute or spread over two
        let k = spell(&f.name, 11) % attrs.len();
        attrs.rotate_left(k);
        if attrs.len() >= 2 && spell(&f.name, 13) % 4 == 0 {
            let cut = 1 + spell(&f.name, 17) % (attrs.len() - 1);
            let _ = writeln!(out, "        #[arg({})]", attrs[..cut].join(", "));
            let _ = writeln!(out, "        #[arg({})]", attrs[cut..].join(", "));
        } else {
            let _ = writeln!(out, "        #[arg({})]", attrs.join(", "));
        }
    }
    let _ = writeln!(out, "        {}: {},", f.name, rust_ty(f));
}

fn emit_enum(out: &mut String, d: &Decl, e: &EnumSpec) {
    // (the lifetime parameter is always spelled 'a: the generated impls paste the field types into `impl<'a>` items, so an enum
    // declared with any other lifetime name does not compile -- such declarations are not among those the macros accept)
    emit_enum_a(out, d, e);
}

fn emit_enum_a(out: &mut String, d: &Decl, e: &EnumSpec) {
    let _ = writeln!(out, "    #[derive(Debug, Command)]");
    if let Some(t) = &e.help_title {
        let _ = writeln!(out, "    #[command(help_title = {:?})]", t);
    }
    let _ = writeln!(out, "    pub enum {}{} {{", e.ident, if e.lifetime { "<'a>" } else { "" });
    for v in &e.variants {
        emit_doc(out, &v.doc, "        ");
        let mut cattrs: Vec<String> = vec![];
        if v.explicit_name {
            cattrs.push(format!("name = {:?}", v.name));
        }
        if v.is_tuple() {
            cattrs.push("subcommand".into());
        }
        if !cattrs.is_empty() {
            let _ = writeln!(out, "        #[command({})]", cattrs.join(", "));
        }
        let sub_ty = |s: &SubSpec| {
            let se = &d.enums[s.enum_idx];
            let t = format!("{}{}", se.ident, if se.lifetime { "<'a>" } else { "" });
            if s.optional {
                option_of(&t, &v.ident)
            } else {
                t
            }
        };
        // a raw identifier names the same variant: `r#Name` is `Name`
        let vid = if spell(&v.ident, 7) % 6 == 0 { format!("r#{}", v.ident) } else { v.ident.clone() };
        if v.is_unit() {
            let _ = writeln!(out, "        {},", vid);
        } else if v.is_tuple() {
            let _ = writeln!(out, "        {}({}),", vid, sub_ty(v.sub.as_ref().unwrap()));
        } else {
            let _ = writeln!(out, "        {} {{", vid);
            let mut idx = 0;
            for (i, f) in v.fields.iter().enumerate() {
                if let Some(s) = &v.sub {
                    if s.position == i {
                        let _ = writeln!(out, "        #[command(subcommand)]\n        {}: {},", s.field_name.as_ref().unwrap(), sub_ty(s));
                    }
                }
                emit_field(out, f);
                idx = i + 1;
            }
            if let Some(s) = &v.sub {
                if s.position >= idx {
                    let _ = writeln!(out, "        #[command(subcommand)]\n        {}: {},", s.field_name.as_ref().unwrap(), sub_ty(s));
                }
            }
            let _ = writeln!(out, "        }},");
        }
    }
    let _ = writeln!(out, "    }}");
}

/// Source of one declaration as a module `d<id>` exposing `Top`, `parse` and `via_processor`.
pub fn emit_decl(d: &Decl) -> String {
    let mut out = String::new();
    let _ = writeln!(out, "#[allow(dead_code, unused_imports, clippy::all)]\npub mod d{} {{", d.id);
    let _ = writeln!(out, "    use embedded_cli::{{Command, CommandGroup}};");
    let _ = writeln!(out, "    use embedded_cli::command::RawCommand;");
    let _ = writeln!(out, "    use embedded_cli::service::{{FromRaw, ParseError}};");
    for e in &d.enums {
        emit_enum(&mut out, d, e);
    }
    if let Top::Group(g) = &d.top {
        let _ = writeln!(out, "    #[derive(Debug, CommandGroup)]");
        let _ = writeln!(out, "    pub enum {}{} {{", g.ident, if g.lifetime { "<'a>" } else { "" });
        for m in &g.members {
            if m.hidden {
                let _ = writeln!(out, "        #[group(hidden)]");
            }
            match &m.member {
                Member::Enum(i) => {
                    let e = &d.enums[*i];
                    let _ = writeln!(out, "        {}({}{}),", m.ident, e.ident, if e.lifetime { "<'a>" } else { "" });
                }
                Member::Raw => {
                    let _ = writeln!(out, "        {}(RawCommand<'a>),", m.ident);
                }
            }
        }
        let _ = writeln!(out, "    }}");
    }
    let top = d.top_ident();
    let lt = d.top_lifetime();
    let _ = writeln!(out, "    pub type Top = {}{};", top, if lt { "<'static>" } else { "" });
    let _ = writeln!(
        out,
        "    pub fn parse<'a>(raw: RawCommand<'a>) -> Result<String, ParseError<'a>> {{\n        <{}{} as FromRaw>::parse(raw).map(|c| format!(\"{{:?}}\", c))\n    }}",
        top,
        if lt { "<'a>" } else { "" }
    );
    // the generated `processor` wrapper is a private inherent fn: only callable from this module
    let _ = writeln!(
        out,
        "    pub fn via_processor(line: &[u8], cap: usize) -> (Vec<String>, Vec<u8>) {{
        use vcore::sink::{{MonSink, SinkErr}};
        use embedded_cli::cli::{{CliBuilder, CliHandle}};
        let handled = std::cell::RefCell::new(Vec::new());
        let sink = MonSink::new();
        let mut cb = vec![0u8; cap];
        let mut hb = vec![0u8; 0];
        {{
            let mut cli = CliBuilder::default().writer(sink.clone()).command_buffer(&mut cb[..]).history_buffer(&mut hb[..]).prompt(\"$ \").build().unwrap();
            let mut p = {}::processor(|_h: &mut CliHandle<'_, MonSink, SinkErr>, cmd: {}{}| {{
                handled.borrow_mut().push(format!(\"{{:?}}\", cmd));
                Ok(())
            }});
            for &b in line {{
                cli.process_byte::<Top, _>(b, &mut p).unwrap();
            }}
        }}
        let bytes = sink.0.borrow().bytes.clone();
        (handled.into_inner(), bytes)
    }}",
        top,
        top,
        if lt { "<'_>" } else { "" }
    );
    let _ = writeln!(out, "}}");
    out
}

/// main.rs of a batch binary
pub fn emit_batch_main(decls: &[Decl], seed: u64, batch: usize, n_full: usize, n_names: usize) -> String {
    let mut out = String::new();
    let _ = writeln!(out, "// generated by vrun gen-decls: seed {} batch {}\n", seed, batch);
    for d in decls {
        out.push_str(&emit_decl(d));
    }
    let _ = writeln!(out, "fn main() {{");
    let _ = writeln!(out, "    let mut ctx = vcore::declrun::Ctx::from_args({}, {}, {}, {});", seed, batch, n_full, n_names);
    for d in decls {
        let _ = writeln!(out, "    ctx.run::<d{}::Top>({}, d{}::parse, d{}::via_processor);", d.id, d.id, d.id, d.id);
    }
    let _ = writeln!(out, "    ctx.finish();\n}}");
    out
}
