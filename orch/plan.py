"""Build variants and per-property plans (stages, evidence rules, minimum observation counts)."""

NIGHTLY = ["+nightly"]

VARIANTS = {
    # debug assertions => std ub_checks + crate debug_assert!s + overflow checks
    "dbg": {"bin": "debug/vrun", "cargo_args": []},
    # optimised, checks still on: the big enumerations
    "fast": {"bin": "fast/vrun", "cargo_args": ["--profile", "fast"]},
    # what a user ships (every check compiled out) -- for valgrind memcheck
    "rel": {"bin": "rel/vrun", "cargo_args": ["--profile", "rel"]},
    "vg": {"bin": "rel/vrun", "target_dir": "rel", "cargo_args": ["--profile", "rel"],
           "wrap": ["valgrind", "--quiet", "--error-exitcode=97", "--exit-on-first-error=no", "--track-origins=no", "--leak-check=no"]},
    "asan": {"bin": "x86_64-unknown-linux-gnu/rel/vrun", "toolchain": NIGHTLY,
             "cargo_args": ["--profile", "rel", "--target", "x86_64-unknown-linux-gnu"],
             "env": {"RUSTFLAGS": "-Zsanitizer=address -Cforce-frame-pointers=yes"},
             "run_env": {"ASAN_OPTIONS": "halt_on_error=1:abort_on_error=1:detect_leaks=0:symbolize=1"}},
}

VARIANTS["miri"] = {"launcher": ["cargo", "+nightly", "miri", "run", "--offline", "--bin", "vrun", "--"],
                    "env": {"MIRIFLAGS": "-Zmiri-disable-isolation"}}

# Miri interpreting other targets (std for them is built from rust-src, offline): 32-bit little-endian, 32-bit big-endian, 64-bit
# big-endian -- what the library's `usize` arithmetic and byte handling do where `usize` is 32 bits wide or the byte order differs
for _name, _triple in (("miri-i686", "i686-unknown-linux-gnu"), ("miri-mips", "mips-unknown-linux-gnu"), ("miri-s390x", "s390x-unknown-linux-gnu")):
    VARIANTS[_name] = {"launcher": ["cargo", "+nightly", "miri", "run", "--offline", "--target", _triple, "--bin", "vrun", "--"],
                       "env": {"MIRIFLAGS": "-Zmiri-disable-isolation"}, "target_dir": "miri"}

# the eight feature subsets (C16)
for hist in (0, 1):
    for ac in (0, 1):
        for hp in (0, 1):
            feats = [f for f, on in (("history", hist), ("autocomplete", ac), ("help", hp)) if on]
            name = "feat-%d%d%d" % (hist, ac, hp)
            VARIANTS[name] = {"bin": "debug/vrun", "cargo_args": ["--no-default-features"] + (["--features", ",".join(feats)] if feats else [])}

SESSION_ASSUME = [
    "keys are attributed with a second real InputGenerator fed the same bytes (bytes->keys is judged by C04 alone)",
    "hooked editor/history state is read through the verif-hooks accessors at quiescent points only",
    "terminal emulator: unbounded width, width-1 glyphs, ECMA-48 CR LF BS CUF CUB CHA DCH ICH ECH EL; anything else => inconclusive",
]


def session_plan(level_rule, mins_quick, mins_thorough, extra_stages=None):
    # minimum counts were calibrated at 24k / 1M sessions; the budgets are now 160k / 4M
    mins_quick = {k: v * 6 for k, v in mins_quick.items()}
    mins_thorough = {k: v * 4 for k, v in mins_thorough.items()}
    return {
        "level": "exploration",
        "rule": level_rule,
        "assumptions": SESSION_ASSUME,
        "min_counts": {"quick": mins_quick, "thorough": mins_thorough},
    }


PLANS = {}

PLANS["C01"] = dict(session_plan(
    "seeded random sessions (config + op list) over the 13-symbol alphabet, all key kinds, all buffer sizes incl. 0 and 1, three command sets; "
    "one evaluation = one monitor clause evaluated on an observed event; distinct = hash of (buffer size class, token shape of the line at Enter, buffer full?)",
    {"c01.enter.dispatched": 20000, "c01.enter.suppressed": 5000, "c01.enter_on_full_buffer": 2000},
    {"c01.enter.dispatched": 800000, "c01.enter.suppressed": 200000, "c01.enter_on_full_buffer": 80000}),
    stages=[{"variant": "dbg", "workload": "C01"}])

PLANS["C05"] = dict(session_plan(
    "seeded random edit sessions + closure of the editor state space in small buffers + hostile sessions on array-backed buffers / the default builder compared byte for byte with slice-backed buffers of the same sizes; distinct = hash of (capacity, byte length, cursor, widths signature, key)",
    {"c05.insert.accepted": 100000, "c05.insert.rejected": 20000, "c05.insert.inside": 10000, "c05.backspace.effective": 10000},
    {"c05.insert.accepted": 4000000, "c05.insert.rejected": 800000, "c05.insert.inside": 400000, "c05.backspace.effective": 400000}),
    stages=[{"variant": "dbg", "workload": "C05"}])

PLANS["C06"] = dict(session_plan(
    "seeded random sessions with Cli::write / set_prompt injected between any two bytes and handler-side prompt changes; after every call the emulator row and column are compared; "
    "distinct = hash of (capacity, byte length, cursor, kind of call, prompt)",
    {"c06.injected.cursor_inside": 2000, "c06.injected.cursor_at_end": 10000},
    {"c06.injected.cursor_inside": 80000, "c06.injected.cursor_at_end": 400000}),
    stages=[{"variant": "dbg", "workload": "C06"}])

PLANS["C10"] = dict(session_plan(
    "seeded random sessions submitting lines from a small pool (duplicates are the norm) with Up/Down at every point, all history sizes, end-of-session probe walking past both ends; "
    "distinct = hash of (budget, multiset of stored entry lengths, event kind)",
    {"c10.submit.recorded": 20000, "c10.dedupe.older": 1000, "c10.evict.1": 2000, "c10.evict.2": 300, "c10.submit.too_long": 2000, "c10.up": 50000, "c10.down.past_newest": 10000},
    {"c10.submit.recorded": 800000, "c10.dedupe.older": 40000, "c10.evict.1": 80000, "c10.evict.2": 12000, "c10.submit.too_long": 80000, "c10.up": 2000000, "c10.down.past_newest": 400000}),
    stages=[{"variant": "dbg", "workload": "C10"}])

PLANS["C13"] = dict(session_plan(
    "seeded random sessions; handler output and Cli::write texts over printable scalars with LF / CR LF anywhere, split over 0-4 calls of every form (write_str, writeln_str, uwrite!, core::fmt); "
    "distinct = hash of (text shape, number of calls, cursor inside?, line empty?, line full?)",
    {"c13.write_calls": 20000, "c13.write_with_cursor_inside": 2000, "c13.handler_outputs_nonempty": 5000},
    {"c13.write_calls": 800000, "c13.write_with_cursor_inside": 80000, "c13.handler_outputs_nonempty": 200000}),
    stages=[{"variant": "dbg", "workload": "C13"}])

PLANS["C15"] = dict(session_plan(
    "every API call of seeded random sessions (typing, editing, recall, completion, Enter with handler output / parse errors / help, Cli::write, set_prompt, build); "
    "clause: no byte written after the last flush when the call returns Ok; distinct = hash of (kind of call, cursor inside?, handler ran?, bytes written)",
    {"c15.calls_that_wrote": 300000},
    {"c15.calls_that_wrote": 12000000}),
    stages=[{"variant": "dbg", "workload": "C15"}])

# ---------------------------------------------------------------- MANIFEST texts

NOT_APPLICABLE = {}

_SESSION_NOTE = ("Trusted base: the harness (reference models, terminal emulator, shadow decoder = a second real InputGenerator), "
                 "rustc/cargo, the verif-hooks accessors. Says nothing about executions the generators do not produce.")

MANIFEST_TEXT = {
    "C01": {"technique": "runtime monitoring: lockstep reference tokenizer/classifier + exactly-once dispatch monitor on handler log, hooked line and sink tail per Enter",
            "design_ref": "DESIGN.md §6 C01",
            "text": "Held on every Enter of 1.6e5 (quick) / 4e6 (thorough) seeded random editing sessions (recall, completion, inside-inserts, arbitrary scalar values, application calls between bytes, buffer sizes 0..64) and on every transition of a breadth-first closure of small-buffer sessions (1.2e6 / 3.4e7 hooked states); the dispatch is judged against the hooked line, the ideal edit history, the visible line and the keys the byte stream spells. Exploration only, no claim beyond the executions run.",
            "note": _SESSION_NOTE},
    "C05": {"technique": "runtime monitoring: ideal Vec<char> editor in lockstep with the hooked editor state after every byte; state-space closure of the real Editor in small buffers",
            "design_ref": "DESIGN.md §6 C05",
            "text": "Lockstep equality with an ideal scalar-value editor after every key of the random sessions; exhaustive closure of the real Editor's reachable states for capacities 0..=10/14 and through Cli::process_byte for 0..=7/10 over characters of all four UTF-8 lengths; whole-Cli session closure in small buffers; array-backed buffers compared byte for byte with slice-backed ones.",
            "note": _SESSION_NOTE},
    "C06": {"technique": "runtime monitoring: ECMA-48 terminal emulator fed the sink bytes, row and cursor column compared with prompt + hooked line after every API call",
            "design_ref": "DESIGN.md §6 C06",
            "text": "Emulator row/column equality after every call of random sessions with writes (every write form) and prompt changes injected between any two input bytes, and after every transition of the small-buffer session closure; exploration.",
            "note": _SESSION_NOTE + " Assumes width-1 glyphs and an unbounded-width terminal."},
    "C10": {"technique": "runtime monitoring: set-valued history model vs hooked line after Up/Down and raw stored entries after every Enter; closure of the real History for small budgets",
            "design_ref": "DESIGN.md §6 C10",
            "text": "Every recall and every stored-entries snapshot of the random sessions and of the small-buffer session closure matches the set-valued model (open points of the statement kept as alternatives); closure of the real History component for budgets 0..=14/20.",
            "note": _SESSION_NOTE},
    "C13": {"technique": "runtime monitoring: byte-exact framing oracle on the sink bytes of each Enter, emulator-row oracle for Cli::write",
            "design_ref": "DESIGN.md §6 C13",
            "text": "Handler output framing checked byte-exactly and Cli::write framing checked on emulator rows + contiguous converted text, for texts with LF/CR LF anywhere split over 0-4 calls of every write form, at arbitrary points of random sessions.",
            "note": _SESSION_NOTE},
    "C15": {"technique": "runtime monitoring: write/flush event order on the monitored sink at every successful return",
            "design_ref": "DESIGN.md §6 C15",
            "text": "No write event after the last flush at the return of every API call of the random sessions (echo, recall, completion, handler output, parse errors, help, Cli::write, set_prompt, build).",
            "note": _SESSION_NOTE},
}

# ---------------------------------------------------------------- component workloads

PLANS["C04"] = {
    "level": "exploration",
    "rule": "stage 1: every sequence of key units up to the depth bound (quick 6, thorough 7) over 20 unit classes pushed byte by byte into the real InputGenerator in lockstep with a reference decoder written from the statement "
            "(sequences pairing a lone ESC with `[` excluded: that pair is a CSI introducer by definition); stage 3: every scalar value >= U+0020 (DEL aside) after nine decoder contexts (fresh, after a character, CR, LF, an arrow, an ignored CSI, a lone ESC, a 2-byte character, a truncated 3-byte sequence); stage 2: random unit streams (long terminator runs, long CSI parameter strings, all ignored controls) through a real Cli, effects per unit compared with an ideal editor driven by the reference decoder. "
            "evaluation = one byte comparison (stage 1) or one unit effect check (stage 2); distinct = hash of (reference decoder state, unit class, byte index) and CR/LF run patterns up to length 6",
    "assumptions": ["DEL, bytes outside 0x20-0x7E inside a CSI sequence and control bytes inside a multi-byte character are left open by the statement and are not generated"],
    "exhaustive": {"quick": True, "thorough": True},
    "exhaustive_note": {"quick": "stage 1 only: all unit sequences of length <= 6 over the 20 unit classes", "thorough": "stage 1 only: all unit sequences of length <= 7 over the 20 unit classes"},
    "min_counts": {"quick": {"c04.sequences": 50000000, "c04.cli.terminator_units": 50000, "c04.scalars": 1112030}, "thorough": {"c04.sequences": 1000000000, "c04.cli.terminator_units": 1000000, "c04.scalars": 1112030}},
    "stages": [{"variant": "fast", "workload": "C04-direct"}, {"variant": "dbg", "workload": "C04-cli"}, {"variant": "dbg", "workload": "C04-scalars"}],
}

PLANS["C02"] = {
    "level": "exploration",
    "rule": "stage 1 (exhaustive sub-space): every sequence of 1-3 bytes >= 0x80, and 4-byte sequences (quick: over 24 boundary bytes, thorough: all 2^28), pushed into a fresh real Utf8Accum followed by the sentinels A, é, €, 𐍈; "
            "clauses: every emitted item is one well-formed scalar, the strict maximal-subpart scan of the input is a subsequence of what was emitted, emitted bytes are a subsequence of the input. "
            "stage 2: hostile random streams (keys + overlong/surrogate/out-of-range/truncated/stray/F8-FF fragments, also as short-option text) through the whole Cli with every hand-out point (handler name/values/option names/short-option scalars, hooked line, echo bytes per call) validated. "
            "stage 3: streams of characters and malformed fragments submitted as a command name: the handler must receive the strict scan as a subsequence. distinct = enumerated sequences (disjoint by construction) + hash of hand-out situations",
    "assumptions": ["emitting more than the strict scan (e.g. completing a sequence across an ignored byte) is allowed by the statement and only counted"],
    "exhaustive": {"quick": False, "thorough": True},
    "exhaustive_note": {"quick": "all sequences of 1-3 bytes >= 0x80 (2,113,664) + 331,776 boundary 4-byte sequences", "thorough": "all sequences of 1-4 bytes >= 0x80 (270,549,120)"},
    "min_counts": {"quick": {"c02.direct.sequences": 2400000, "c02.handout.handler_records": 20000, "c02.accept.streams": 30000},
                   "thorough": {"c02.direct.sequences": 270000000, "c02.handout.handler_records": 500000, "c02.accept.streams": 700000}},
    "stages": [{"variant": "fast", "workload": "C02-direct"}, {"variant": "dbg", "workload": "C02-cli"}, {"variant": "dbg", "workload": "C02-accept"}],
}

MANIFEST_TEXT["C04"] = {
    "technique": "runtime monitoring: real InputGenerator in byte-level lockstep with a reference decoder over a bounded-exhaustive set of key-unit sequences; unit effects observed through a real Cli",
    "design_ref": "DESIGN.md §6 C04",
    "text": "Byte-level agreement with a reference decoder on every key-unit sequence up to depth 6/7 over 20 boundary-value unit classes (deeper than the decoder's memory: one flag, one byte, <=3 pending octets), plus effect checks through the Cli on long random streams.",
    "note": "Trusted base: reference decoder (60 lines, from the statement), harness. Open points of the statement are not generated."}
MANIFEST_TEXT["C02"] = {
    "technique": "runtime monitoring: UTF-8 validity monitor at every hand-out point + subsequence oracle against a strict maximal-subpart scan, over a bounded-exhaustive byte-sequence space and hostile random streams",
    "design_ref": "DESIGN.md §6 C02",
    "text": "Exhaustive over all <=3-byte (quick) / <=4-byte (thorough) sequences of bytes >= 0x80 at the decoder; exploration for whole-CLI streams.",
    "note": "Trusted base: core::str::from_utf8 as the definition of well-formedness; harness."}

PLANS["C07"] = {
    "level": "exploration",
    "rule": "stage 1 (exhaustive sub-space): every string of length <= 7 (quick) / <= 9 (thorough) over {a, space, quote, backslash, dash, é} through the real Tokens::new, result must be a member of the set-valued reference tokenizer's output, valid UTF-8 and not longer than the line; "
            "stage 2: random lines up to 200 scalars over 12 symbols, round trip of random string lists through four renderings (quoted single space, quoted with blank runs, quoted adjacent, bare where possible), and every fourth list typed into a real Cli (name = first element, rest after --). "
            "stage 3: every scalar value above U+0020 (DEL, quote and backslash aside) inside a bare token, alone, doubled and inside a quoted token next to a blank. 6 % of the characters of random lines and lists are arbitrary scalar values. "
            "distinct = enumerated strings (disjoint by construction) + scalars + hash of the character-class shape of random lines/renderings",
    "assumptions": ["open points kept as alternatives: backslash before a character other than quote/backslash inside quotes; a backslash as the very last character inside an open quote",
                    "quotes and backslashes inside a token that does not start with a quote are literal (the statement only gives quoting meaning to tokens that start with a quote)"],
    "exhaustive": {"quick": True, "thorough": True},
    "exhaustive_note": {"quick": "stage 1 only: all 335,923 strings of length <= 7 over 6 symbols", "thorough": "stage 1 only: all 12,093,235 strings of length <= 9 over 6 symbols"},
    "min_counts": {"quick": {"c07.direct.lines": 335000, "c07.roundtrip.renderings": 300000, "c07.end_to_end.lines": 20000, "c07.scalars": 1112027},
                   "thorough": {"c07.direct.lines": 12000000, "c07.roundtrip.renderings": 10000000, "c07.end_to_end.lines": 700000, "c07.scalars": 1112027}},
    "stages": [{"variant": "dbg", "workload": "C07-direct"}, {"variant": "dbg", "workload": "C07-random"}, {"variant": "dbg", "workload": "C07-scalars"}],
}
MANIFEST_TEXT["C07"] = {
    "technique": "runtime monitoring: real tokenizer output checked for membership in a set-valued reference tokenizer over a bounded-exhaustive string space; round-trip oracle on random lists; end-to-end through the Cli",
    "design_ref": "DESIGN.md §6 C07",
    "text": "Exhaustive over all strings up to length 7/9 over six boundary symbols; exploration for long random lines and the list round trip.",
    "note": "Trusted base: reference tokenizer (70 lines, from the statement), harness."}

PLANS["C08"] = {
    "level": "exploration",
    "rule": "stage 1 (exhaustive sub-space): every list of <= 4 (quick) / <= 5 (thorough) tokens over 20 token shapes (empty, -, --, ---, ----, clusters incl. 2/3/4-byte characters with every kind of lead octet, long names, values with dashes/blanks, -h, --help) through the real ArgList, compared item by item with the reference classifier; "
            "stage 2: random lists of <= 12 tokens over {-, a, é, €, 𐍈, blank}, and every third list typed (quoted as needed) into a real Cli and compared at the handler; stage 3: every scalar value >= U+0020 as a short option alone and inside a cluster, as a long option name, as a value and after `--`. distinct = enumerated lists + scalars + hash of the item-kind sequence",
    "assumptions": ["re-joining law is checked as equality with the reference classification (which is the unique classification that re-joins to the token list under the stated rules)"],
    "exhaustive": {"quick": True, "thorough": True},
    "exhaustive_note": {"quick": "stages 1 and 3: all 168,421 lists of <= 4 tokens over 20 shapes; all 1,112,031 scalars as option characters", "thorough": "stages 1 and 3: all 3,368,421 lists of <= 5 tokens over 20 shapes; all scalars"},
    "min_counts": {"quick": {"c08.direct.lists": 168000, "c08.random.lists": 70000, "c08.end_to_end.lines": 15000, "c08.scalars": 1112031},
                   "thorough": {"c08.direct.lists": 3360000, "c08.random.lists": 1900000, "c08.end_to_end.lines": 400000, "c08.scalars": 1112031}},
    "stages": [{"variant": "dbg", "workload": "C08-direct"}, {"variant": "dbg", "workload": "C08-random"}, {"variant": "dbg", "workload": "C08-scalars"}],
}
MANIFEST_TEXT["C08"] = {
    "technique": "runtime monitoring: real ArgList item stream compared with a reference classifier over a bounded-exhaustive token-list space and random lists; end-to-end through the Cli",
    "design_ref": "DESIGN.md §6 C08",
    "text": "Exhaustive over all token lists up to length 4/5 over 18 shapes; exploration beyond.",
    "note": "Trusted base: reference classifier (30 lines), harness."}

PLANS["C17"] = {
    "level": "exploration",
    "rule": "every one of the 1,112,031 scalar values >= U+0020 except U+007F: (a) encode_utf8, char_pop_front, char_count, char_byte_index, common_prefix_len of the real crate against core::char / core::str, alone and next to neighbours of every encoded length (\"\", a, é, €, 𐍈 on both sides); "
            "(b) a mini-session through a real Cli per scalar: typed between two neighbours, echo bytes compared, Left/Right over it, Backspace, re-typed inside the line, submitted (handler tokens), recalled with Up (byte for byte), then used as command name, value, short option and value after `--`; "
            "(c) `ba -<c>` on a derived set so that the unexpected-option error line renders the scalar. quick: two neighbour combinations alternating; thorough: eight combinations per scalar. distinct = scalars (disjoint by construction)",
    "assumptions": ["expected handler tokens come from the reference tokenizer/classifier, so blank, quote, dash and h behave as C07/C08/C12 say"],
    "exhaustive": {"quick": True, "thorough": True},
    "exhaustive_note": {"quick": "all 1,112,031 scalar values", "thorough": "all 1,112,031 scalar values x 8 neighbour combinations"},
    "min_counts": {"quick": {"c17.scalars": 1112031, "c17.cli_mini_sessions": 1112031}, "thorough": {"c17.scalars": 1112031, "c17.cli_mini_sessions": 8000000}},
    "stages": [{"variant": "dbg", "workload": "C17"}],
}
MANIFEST_TEXT["C17"] = {
    "technique": "runtime monitoring over an exhaustively enumerated input space: the crate's UTF-8 helpers against core, and a monitored Cli mini-session per scalar value",
    "design_ref": "DESIGN.md §6 C17",
    "text": "Exhaustive over all scalar values for the pure helpers and for the typed/echoed/edited/submitted/recalled/option-use mini-session.",
    "note": "Trusted base: core::char / core::str as the Unicode definition; reference tokenizer/classifier; harness."}

# closures as extra stages of C05 and C10
# array-backed buffers and the builder defaults against slice-backed ones (reported under C05)
PLANS["C05"]["stages"] += [{"variant": "dbg", "workload": "C03-arrays"}]
PLANS["C05"]["min_counts"]["quick"].update({"c03.arrays.compared_with_slices": 10000})
PLANS["C05"]["min_counts"]["thorough"].update({"c03.arrays.compared_with_slices": 100000})
PLANS["C05"]["stages"] += [{"variant": "dbg", "workload": "C05-closure", "shards": 15}, {"variant": "dbg", "workload": "C05-closure-cli", "shards": 11}]
PLANS["C05"]["exhaustive"] = {"quick": False, "thorough": False}
PLANS["C05"]["exhaustive_note"] = {
    "quick": "closure stages only: every reachable (line, cursor) state of the real Editor for capacities 0..=10 over {a, é, €, 𐍈} x {insert x4, backspace, left, right}; the same through Cli::process_byte for capacities 0..=7",
    "thorough": "closure stages only: capacities 0..=14 on the Editor, 0..=10 through Cli::process_byte"}
PLANS["C05"]["min_counts"]["quick"].update({"c05.closure.states": 9900, "c05.closure_cli.states": 970})
PLANS["C05"]["min_counts"]["thorough"].update({"c05.closure.states": 190000, "c05.closure_cli.states": 9000})
PLANS["C10"]["stages"] += [{"variant": "dbg", "workload": "C10-closure", "shards": 21}]
PLANS["C10"]["exhaustive"] = {"quick": False, "thorough": False}
PLANS["C10"]["exhaustive_note"] = {
    "quick": "closure stage only: every reachable state (stored bytes, selected entry) of the real History for budgets 0..=14 over pushes of {\"\", a, b, ab, é, abc, abcd} + next_older + next_newer",
    "thorough": "closure stage only: budgets 0..=20 over pushes of {\"\", a, b, ab, é, abc, abcd, ba, €} + next_older + next_newer"}
PLANS["C10"]["min_counts"]["quick"].update({"c10.closure.states": 8400})
PLANS["C10"]["min_counts"]["thorough"].update({"c10.closure.states": 400000})


PLANS["C14"] = {
    "level": "fault_enumeration",
    "rule": "corpus of scenarios (typing at end/inside, multi-byte, Backspace, Left/Right, Up/Down with history, Tab unique/ambiguous/partial/no match, Enter with silent/writing/prompt-changing handlers, every parse-error kind, help list/command/option/nested/unknown/hidden in plain and grouped sets, Cli::write with 0-3 lines, set_prompt, build) x three command sets; "
            "each target is run fault-free to count its sink calls, then EVERY sink call position is failed in turn, once and permanently (sticky); clauses: that error is returned by the call during which the sink failed, no panic, the line is as before / as the key leaves it / empty with all structural invariants, "
            "after repair `zz` + Enter dispatches exactly the tokens of the line with zz inserted at the cursor, Up recalls it. evaluation = one (scenario, position, mode) run plus its follow-up checks; distinct = hash of (scenario, position, mode); thorough adds three more buffer-size/prompt configurations per scenario. Stage 2: random scenarios (a random session prefix as setup, the next key or application call as target) with the same complete position enumeration and clauses: 48k (quick) / 1M (thorough) scenarios",
    "assumptions": ["an application that writes through core::fmt::Write cannot see the sink's error value (fmt::Error carries none); the harness handler maps it to a marker value which the library must pass on unchanged"],
    "exhaustive": {"quick": True, "thorough": True},
    "exhaustive_note": {"quick": "every write/flush call position of every scenario of the corpus, both failure modes", "thorough": "the same for four buffer/prompt configurations per scenario"},
    "min_counts": {"quick": {"c14.scenarios": 130, "c14.positions_fired": 2000, "c14.random.scenarios": 30000}, "thorough": {"c14.scenarios": 500, "c14.positions_fired": 8000, "c14.random.scenarios": 600000}},
    "stages": [{"variant": "dbg", "workload": "C14", "shards": 16}, {"variant": "dbg", "workload": "C14-random"}],
}
MANIFEST_TEXT["C14"] = {
    "technique": "fault injection at the embedded_io::Write sink: every write/flush call position of every scenario failed in turn (once / sticky), monitors on the returned Result, hooked line, later dispatch and recall",
    "design_ref": "DESIGN.md §6 C14",
    "text": "Complete enumeration of sink-call fault positions over a ~130-scenario corpus (x4 configurations in thorough); says nothing about scenarios outside the corpus.",
    "note": "Trusted base: MonSink fault injector, reference tokenizer/classifier, harness."}

_C03_STAGES = [
    {"variant": "dbg", "workload": "C03-sessions", "canary": ["unchecked-index", "unsafe precondition|non-unwinding panic"]},
    {"variant": "dbg", "workload": "C03-components"},
    {"variant": "dbg", "workload": "C03-arrays"},
    {"variant": "dbg", "workload": "C03-sclosure", "shards": 16},
    {"variant": "asan", "workload": "C03-sclosure", "shards": 16, "args_quick": ["--scale", "0.25"], "args_thorough": ["--scale", "0.1"]},
    {"variant": "asan", "workload": "C03-arrays", "args_quick": ["--scale", "0.25"], "args_thorough": ["--scale", "0.25"]},
    {"variant": "asan", "workload": "C03-sessions", "args_quick": ["--scale", "0.25"], "args_thorough": ["--scale", "0.25"], "canary": ["heap-write-past-end", "AddressSanitizer"]},
    {"variant": "asan", "workload": "C03-components"},
    {"variant": "miri", "workload": "C03-lean", "canary": ["unchecked-index", "Undefined Behavior"], "timeout_quick": 1500, "timeout_thorough": 7200},
    {"variant": "miri", "workload": "C03-sclosure", "shards": 16, "args_thorough": ["--scale", "0.0001"], "timeout_thorough": 7200, "tiers": ["thorough"]},
    {"variant": "vg", "workload": "C03-sessions", "args_quick": ["--scale", "0.05"], "args_thorough": ["--scale", "0.05"], "canary": ["heap-write-past-end", "Invalid write"], "canary_may_survive": True, "tiers": ["thorough"]},
    {"variant": "vg", "workload": "C03-components", "args_quick": ["--scale", "0.1"], "args_thorough": ["--scale", "0.1"], "tiers": ["thorough"]},
    {"custom": "fuzz_c03", "seconds": 150, "tiers": ["thorough"]},
    {"custom": "unsafe_coverage", "tiers": ["thorough"]},
]
PLANS["C03"] = {
    "level": "exploration",
    "rule": "hostile sessions (keys + malformed fragments + random bytes, Cli::write / set_prompt injected between any two bytes, three command sets, Cli::new and the builder) with command and history buffer sizes drawn from 0..=64 (thorough: every (cmd, hist) pair of 0..=64 x 0..=64 visited), and direct stress of Editor / History / Tokens / ArgList / Autocompletion / utils with any argument the safe API allows (NULs, over-long strings, arbitrary ranges and merges); "
            "the same workloads under four UB monitors: debug-assertion build (std ub_checks on every unchecked slice/unwrap/char/copy op, overflow checks, the crate's debug_assert!s), AddressSanitizer on a checks-off build, Miri (lean driver without oracles), valgrind memcheck (thorough). Structural invariants of the hooked editor/history state after every call. "
            "A worker dying by signal/abort/sanitizer report is re-run to identify the session. evaluation = one API call or component operation executed under a monitor; distinct = hash of (command size, history size, kind of call) / component run shape",
    "assumptions": ["red-zone tools see the command and history buffers as separate exact-size heap allocations", "every sanitizer stage first proves its monitor live with a canary (UB planted in the harness itself)"],
    "min_counts": {"quick": {"ops": 2500000, "c03.component.editor_runs": 10000, "c03.lean.ops": 30000}, "thorough": {"ops": 80000000, "c03.component.editor_runs": 250000, "c03.lean.ops": 250000}},
    "stages": _C03_STAGES,
}
MANIFEST_TEXT["C03"] = {
    "technique": "sanitizers and UB interpreters over hostile workloads: debug-assertion build (std ub_checks, overflow checks), AddressSanitizer, Miri, valgrind memcheck; invariant hooks on editor/history state; crash monitor on worker exit status",
    "design_ref": "DESIGN.md §5, §6 C03",
    "text": "No report from any of the four UB monitors and no invariant failure on the executions produced; each monitor proven live by a canary. Exploration: not memory safety in general.",
    "note": "Trusted base: rustc ub_checks, ASan runtime, Miri, valgrind; harness. ASan/memcheck blind spots (intra-object, non-adjacent) mitigated by exact-size separate heap buffers and by Miri."}

PLANS["C11"] = dict(session_plan(
    "stage 1: seeded random sessions on the fixed corpus of command sets (names sharing prefixes and NOT adjacent in the declaration, a multi-byte name, one name a prefix of another, a second visible group, a hidden group, names colliding with prefixes of `help`), typing name prefixes and pressing Tab at every cursor position in command buffers of 1..32 bytes; "
    "the line after Tab must be a member of the set-valued completion model, keep every non-blank character typed and fit the buffer. distinct = hash of (set, line shape, cursor inside?, fit class, number of matches)",
    {"c11.completed": 4000}, {"c11.completed": 150000}),
    stages=[{"variant": "dbg", "workload": "C11"}])
MANIFEST_TEXT["C11"] = {
    "technique": "runtime monitoring: hooked line after every Tab checked for membership in a set-valued completion model (longest common continuation of all visible names + help, blank iff unique and room), over fixed and generated name sets",
    "design_ref": "DESIGN.md §6 C11",
    "text": "Exploration over random sessions on a fixed corpus of name sets and (stage 2) generated declarations compiled with the repository's macros.",
    "note": _SESSION_NOTE}

PLANS["C16"] = {
    "level": "exploration",
    "rule": "all eight subsets of {history, autocomplete, help} (macros on): each is built from /repo's tree, then runs the same seeded sessions (typing, editing, Up/Down, Tab, help-shaped lines, Cli::write, set_prompt) under the C01/C05/C06/C10/C11/C13/C15 monitors with the reference models configured for that feature set "
            "(history off: Up/Down change nothing and write nothing; autocomplete off: Tab likewise; help off: help-shaped lines are dispatched like any command); generated declarations are also compiled in builds without `help` and run under the C09 reference interpreter (there `help`, -h and --help are ordinary input: an undeclared option is an error, a declared one works); then the per-session transcript hashes (sink bytes and flush positions, handler records, editor state) of every build are compared with the all-features build for every session that never touches a facility the build lacks. "
            "distinct = hashes of the per-monitor situations; evaluations = monitor clauses + transcripts compared",
    "assumptions": list(SESSION_ASSUME) + ["with help off, whether Tab still offers the built-in `help` name is not decided by the statement: both accepted"],
    "exhaustive": {"quick": False, "thorough": False},
    "min_counts": {"quick": {"c16.transcripts_compared": 8000, "c01.enter.dispatched": 50000}, "thorough": {"c16.transcripts_compared": 100000, "c01.enter.dispatched": 600000}},
    "stages": [{"custom": "c16_differential", "variants": ["feat-000", "feat-001", "feat-010", "feat-011", "feat-100", "feat-101", "feat-110", "feat-111"]},
               # derived parsers in builds without the help facility: -h / --help / help are ordinary input there
               {"custom": "declbatch", "mode": "C09", "features": "history,autocomplete", "batches_quick": [1, 30, 0], "batches_thorough": [4, 60, 0]},
               {"custom": "declbatch", "mode": "C09", "features": "", "batches_quick": [1, 30, 0], "batches_thorough": [4, 60, 0], "tiers": ["thorough"]},
               {"custom": "declbatch", "mode": "C11", "features": "autocomplete", "batches_quick": [1, 5, 20], "batches_thorough": [2, 10, 40], "tiers": ["thorough"]}],
}
MANIFEST_TEXT["C16"] = {
    "technique": "runtime monitoring per feature build (all 8 subsets) with per-build reference models + differential comparison of session transcripts across builds",
    "design_ref": "DESIGN.md §6 C16",
    "text": "All eight feature combinations are built and monitored on the same sessions; cross-build transcript equality for sessions that avoid the disabled facility. Exploration.",
    "note": _SESSION_NOTE}

# session closure (all keys incl. recall / completion / submit / application write, in small buffers) as an extra stage of
# every session property
_SCL_RULE = (" Session-closure stage: breadth-first over the hooked state of the real Cli (edited line, cursor, stored history bytes, history selection) for 16 (quick) / 42 (thorough) configurations "
             "(command buffer 1..8, history buffer 0..9, four command sets, six prompts) under 13-14 keys (four characters of 1-3 bytes, Backspace, Left, Right, Up, Down, Tab, Enter, an application write): "
             "every key is applied in every state first reached, by replaying the key path that reached it with all monitors of the property on; a configuration is either closed (no new state) or cut at a state budget "
             "(60k quick / 800k thorough), in which case every state reachable by fewer keys than the reported depth has been expanded.")
for _p in ("C01", "C05", "C06", "C10", "C11", "C13", "C15"):
    PLANS[_p]["stages"].append({"variant": "dbg", "workload": _p + "-sclosure", "shards": 16})
    PLANS[_p]["rule"] += _SCL_RULE
    PLANS[_p]["min_counts"]["quick"].update({"sclosure.states": 300000})
    PLANS[_p]["min_counts"]["thorough"].update({"sclosure.states": 5000000})
# large buffers: bursts of hundreds of characters / moves / deletions / tokens / submitted lines / recall steps in buffers of 200..1100 bytes
_LARGE_RULE = (" Large-buffer stage: 2.4k (quick) / 60k (thorough) sessions in command and history buffers of 200..1100 bytes (254..258, 510..513, 1023, 1024 over-represented), prompts of up to 262 characters / 655 bytes, "
               "made of bursts of 1..530 repetitions (characters of every encoded length, Left, Right, Backspace, Up, Down, tokens of every kind, distinct submitted lines, one long application text), "
               "so that line lengths, cursor positions, token counts, stored-entry counts and offsets and terminal columns cross 255 / 256, 511 / 512 and 1023 / 1024 under the same monitors.")
for _p in ("C01", "C05", "C06", "C10", "C13", "C15"):
    PLANS[_p]["stages"].append({"variant": "dbg", "workload": _p + "-large"})
    PLANS[_p]["rule"] += _LARGE_RULE
    PLANS[_p]["min_counts"]["quick"].update({"large.calls_with_line_over_255_bytes": 300000, "large.calls_with_cursor_over_255": 100000, "large.calls_with_column_over_255": 300000})
    PLANS[_p]["min_counts"]["thorough"].update({"large.calls_with_line_over_255_bytes": 7000000, "large.calls_with_cursor_over_255": 2500000, "large.calls_with_column_over_255": 7000000})
PLANS["C10"]["min_counts"]["quick"].update({"large.enters_with_over_255_stored_entries": 10000})
PLANS["C10"]["min_counts"]["thorough"].update({"large.enters_with_over_255_stored_entries": 500000})
PLANS["C01"]["min_counts"]["quick"].update({"large.dispatches_with_over_255_items": 10})
PLANS["C01"]["min_counts"]["thorough"].update({"large.dispatches_with_over_255_items": 300})
# 70,000-byte buffers: six hand-built sessions of ~10^5 operations each crossing 65,535 / 65,536 (optimised build with assertions)
_HUGE_RULE = (" Huge-buffer stage: seven hand-built sessions, six in command / history buffers of 70,000 bytes (65,530 one-byte characters then characters of every length across 65,535 / 65,536 with edits at both ends; "
              "32,768 two-byte characters; 33,000 tokens; a history turned over by 1,000-byte lines and walked to its oldest entry and back; 17,500 stored four-byte entries with eviction; an application write and a prompt change with the cursor far inside a 65,600-character line) and one of 1.3 million input bytes in 8 / 9-byte buffers (66,000 characters typed, moved over and deleted, 6,600 submissions, recalls and completions), every call under the same monitors.")
for _p, _tiers in (("C05", ["quick", "thorough"]), ("C10", ["quick", "thorough"]), ("C01", ["thorough"]), ("C06", ["thorough"]), ("C13", ["thorough"]), ("C15", ["thorough"])):
    PLANS[_p]["stages"].append({"variant": "fast", "workload": _p + "-huge", "shards": 7, "tiers": _tiers, "timeout_quick": 900})
    PLANS[_p]["rule"] += _HUGE_RULE + ("" if "quick" in _tiers else " (thorough tier only)")
    for _t in _tiers:
        PLANS[_p]["min_counts"][_t].update({"huge.ops": 400000})
_C03_STAGES.insert(3, {"variant": "dbg", "workload": "C03-large"})
_C03_STAGES.insert(6, {"variant": "asan", "workload": "C03-large", "args_quick": ["--scale", "0.25"], "args_thorough": ["--scale", "0.1"]})
PLANS["C03"]["rule"] += _LARGE_RULE
PLANS["C16"]["rule"] += " In each of the eight builds the sink-fault enumeration of C14 (scenario corpus, every call position, once / sticky; a tenth of the random scenarios) runs as well: a failing sink must not make a build with or without a facility behave differently from what C14 says."
PLANS["C16"]["rule"] += " The session-closure stage of C01/C05/... also runs in each of the eight builds (a quarter of the state budget) under that build's models."

# ---------------------------------------------------------------- generated declarations (C09, C11 stage 2, C12)

_BATCHES = {"batches_quick": [4, 30, 20], "batches_thorough": [12, 60, 40]}
_DECL_RULE = ("declarations are produced by a seeded generator over a grammar covering every attribute the derive macros read (unit / struct / tuple(sub-command) variants; explicit and kebab-case names incl. multi-byte; positional / option / flag fields of all 17 supported types and of two application-defined FromArgument types (one borrowing from the line); Option<T>; default_value, default_value_t bare and with an expression; generated and explicit short/long incl. non-ASCII; value_name; "
              "named #[command(subcommand)] fields required and optional, nesting <= 3; CommandGroups of 1-3 enums with hidden members and a trailing RawCommand catch-all; help_title; doc comments absent / one line / two lines / multi-paragraph), emitted as Rust source with the derives, compiled with the repository's macros from /repo's working tree, and executed. ")
PLANS["C09"] = {
    "level": "exploration",
    "rule": _DECL_RULE + "For every declaration 70 (quick) / 160 (thorough) lines: valid invocations (every presence/absence combination, options shuffled among positionals, flag clusters, `--`, boundary numerals, quoted and multi-byte values) and mutants (bad value, inserted / removed / swapped / duplicated token, unknown command, bare name); each is typed into a real Cli; "
            "the structured parse result (Debug rendering or ParseError) recorded by the command processor is compared with a reference interpreter of the declaration spec; on errors: handler not run and exactly one `error:` row carrying the payload; the generated T::processor wrapper must agree. "
            "distinct = hash of (declaration, item-kind sequence of the line, expectation class)",
    "assumptions": ["not asserted (counted as unspecified): option at the end of the line or followed by another option / `--` (missing value), repeated option, `--` before a sub-command name, unknown sub-command in a group that has a catch-all member; parent's missing argument vs child's error: either accepted",
                    "declarations outside the grammar (user FromArgument types, cfg'd fields, generic enums) are not reached"],
    "min_counts": {"quick": {"c09.expected_ok": 2400, "c09.expected_error": 1600, "c09.error.missing-argument": 150, "c09.error.parse-value": 400, "declarations_compiled": 200},
                   "thorough": {"c09.expected_ok": 30000, "c09.expected_error": 20000, "c09.error.missing-argument": 2000, "c09.error.parse-value": 5000, "declarations_compiled": 1200}},
    "stages": [dict({"custom": "declbatch"}, **_BATCHES)],
}
MANIFEST_TEXT["C09"] = {
    "technique": "runtime monitoring of generated programs: seeded declaration generator -> compiled with the repository's derive macros -> structured parse results and error rows compared with a reference interpreter of the declaration",
    "design_ref": "DESIGN.md §6 C09",
    "text": "Exploration over 200 (quick) / 1200 (thorough) generated declarations x 70/160 lines each; nothing is claimed for declarations outside the generator grammar.",
    "note": "Trusted base: declaration generator + emitter, reference interpreter (250 lines), Rust's str::parse as the canonical value parser, derive(Debug) rendering."}

PLANS["C12"] = {
    "level": "exploration",
    "rule": _DECL_RULE + "For every declaration: `help`, and for every command path (nested to depth 3, through visible groups) `help p1..pn` and `p1..pn [own options/values] -h|--help` with the help option at a random boundary after pn and valid parent options in between, plus unknown, hidden and unknown-nested names. "
            "Clauses: the command processor is never called; `help` lists every visible command exactly once with its summary and no hidden one; command help prints every description paragraph, one Usage: row with the full path, each positional's usage name, <COMMAND>/[COMMAND], one entry per positional, per option (short, long, value name) and per sub-command with its summary; "
            "unknown / hidden -> exactly `error: unknown command`. Output is judged as whitespace-separated words of emulator rows (no dependence on alignment). distinct = hash of (declaration, line)",
    "assumptions": ["the help option is generated only after the full path (before it, which command it asks about is ambiguous)", "not asserted: alignment, titles, blank lines, order of entries"],
    "min_counts": {"quick": {"c12.lines.help-command": 1500, "c12.lines.help-option": 1500, "c12.lines.list": 200, "declarations_compiled": 200},
                   "thorough": {"c12.lines.help-command": 20000, "c12.lines.help-option": 20000, "c12.lines.list": 1400, "declarations_compiled": 1200}},
    "stages": [dict({"custom": "declbatch"}, **_BATCHES)],
}
MANIFEST_TEXT["C12"] = {
    "technique": "runtime monitoring of generated programs: help output of compiled generated declarations interpreted on a terminal emulator and checked against the declaration spec; handler log must stay empty",
    "design_ref": "DESIGN.md §6 C12",
    "text": "Exploration over the same generated declarations as C09, all command paths and help spellings.",
    "note": "Trusted base: declaration generator + emitter, help expectations derived from the spec, terminal emulator."}

PLANS["C11"]["stages"].append(dict({"custom": "declbatch"}, **_BATCHES))
# name sets chosen at run time (hand-written Autocomplete doing what the derive generates): names that part company inside a character
PLANS["C11"]["stages"].append({"variant": "dbg", "workload": "C11-dyn"})
PLANS["C02"]["stages"].append({"variant": "dbg", "workload": "C11-dyn"})
PLANS["C02"]["min_counts"]["quick"].update({"c11.dyn.completed": 200000})
PLANS["C02"]["min_counts"]["thorough"].update({"c11.dyn.completed": 4000000})
PLANS["C02"]["rule"] += (" stage 4: Tab completion over 60k (quick) / 1.2M (thorough) random name sets offered by a hand-written Autocomplete implementation, names sharing all but the last one or two octets of multi-byte characters "
                         "(boundary continuation octets over-represented), every prefix, capacities around the fit: the edited line must stay well-formed.")
PLANS["C11"]["rule"] += (" stage 2: generated name sets (unit variants with explicit multi-byte names sharing prefixes, adjacent and not, split across 1-3 groups, hidden groups, catch-all) compiled with the repository's macros: every prefix of every name (visible and hidden) x {plain, leading blanks, trailing blank(s), argument started} "
                          "x every cursor position x capacities {len, len+|cont|-1, len+|cont|, +1, 64, ...}; the terminal row/column after Tab must agree with the line")
PLANS["C11"]["min_counts"]["quick"].update({"c11.gen.completed": 100000, "c11.gen.fit.ContDoesNotFit": 20000, "c11.dyn.completed": 200000})
PLANS["C11"]["rule"] += (" stage 3: name sets chosen at run time -- a hand-written Autocomplete that offers every name starting with the typed word, as the generated one does -- 60k / 1.2M random sets of 2-6 names "
                         "from one or two neighbouring 64-code-point blocks (so that names part company inside a character; octets 0x80 / 0xBF over-represented), any order, every prefix, with and without a trailing blank, capacities around the fit.")
PLANS["C11"]["min_counts"]["thorough"].update({"c11.gen.completed": 800000, "c11.gen.fit.ContDoesNotFit": 150000, "c11.dyn.completed": 4000000})

# every scalar value inside a name that Tab has to complete, the free space ending before / inside / after the character
for _p in ("C17", "C02", "C11"):
    PLANS[_p]["stages"].append({"variant": "dbg", "workload": "C17-complete"})
    PLANS[_p]["min_counts"]["quick"].update({"c17.complete.scalars": 1111900})
    PLANS[_p]["min_counts"]["thorough"].update({"c17.complete.scalars": 1111900})
    PLANS[_p]["rule"] += (" Completion around every scalar value: for each of the 1,111,902 scalar values >= U+0080 (U+FFFD aside) the names `s<c>t` and {`s<c>a`, `s<c>b`} offered by a run-time Autocomplete, "
                          "Tab on `s` in buffers of 1 .. len(c)+3 bytes (the free space ends before, after each octet of, and after the character): the line must be a member of the completion model's set, well-formed, and shown as it is.")

# the behavioural monitors also on the build a user ships (no debug assertions, wrapping arithmetic): a `debug_assert!` with a side
# effect, an overflow that panics in debug builds and wraps in release, a `cfg!(debug_assertions)` branch
_REL_RULE = " Release-profile stage: a quarter of the random sessions (and half of the large-buffer ones) again in a build without debug assertions and overflow checks, under the same monitors."
for _p in ("C01", "C05", "C06", "C10", "C11", "C13", "C15"):
    PLANS[_p]["stages"].append({"variant": "rel", "workload": _p, "args_quick": ["--scale", "0.25"], "args_thorough": ["--scale", "0.25"]})
    if _p != "C11":
        PLANS[_p]["stages"].append({"variant": "rel", "workload": _p + "-large", "args_quick": ["--scale", "0.5"], "args_thorough": ["--scale", "0.5"]})
    PLANS[_p]["rule"] += _REL_RULE
for _p, _wls in (("C14", ["C14", "C14-random"]), ("C02", ["C02-cli", "C02-accept"]), ("C04", ["C04-cli"]), ("C07", ["C07-random"]), ("C08", ["C08-random"]), ("C17", ["C17"])):
    for _w in _wls:
        PLANS[_p]["stages"].append({"variant": "rel", "workload": _w, "args_quick": ["--scale", "0.25"], "args_thorough": ["--scale", "0.25"]})
    PLANS[_p]["rule"] += " Release-profile stage: a quarter of the through-the-Cli workloads again in a build without debug assertions and overflow checks."

# generated declarations also on the release profile (the generated parsers / help printers without debug assertions)
for _p in ("C09", "C12"):
    PLANS[_p]["stages"].append({"custom": "declbatch", "profile": "rel", "batches_quick": [1, 24, 0], "batches_thorough": [4, 60, 0]})
    PLANS[_p]["rule"] += " One batch of 24 (quick) / four of 60 (thorough) declarations is also compiled and run on a release profile (no debug assertions, wrapping arithmetic)."

# other targets under Miri: 32-bit and big-endian
_C03_STAGES.insert(_C03_STAGES.index(next(st for st in _C03_STAGES if st.get("variant") == "miri" and st.get("workload") == "C03-lean")) + 1,
                   {"variant": "miri-mips", "workload": "C03-lean", "args_quick": ["--scale", "0.25"], "args_thorough": ["--scale", "0.5"], "timeout_quick": 1500, "timeout_thorough": 7200})
_C03_STAGES.insert(_C03_STAGES.index(next(st for st in _C03_STAGES if st.get("variant") == "miri-mips")) + 1,
                   {"variant": "miri-i686", "workload": "C03-lean", "args_quick": ["--scale", "0.25"], "args_thorough": ["--scale", "0.5"], "timeout_quick": 1500, "timeout_thorough": 7200})
_C03_STAGES.append({"variant": "miri-s390x", "workload": "C03-lean", "args_thorough": ["--scale", "0.5"], "timeout_thorough": 7200, "tiers": ["thorough"]})
PLANS["C03"]["rule"] += (" The lean Miri driver also runs interpreted for a 32-bit big-endian target (mips-unknown-linux-gnu), a 32-bit little-endian one (i686) and, in the thorough tier, "
                         "a 64-bit big-endian one (s390x): the same hostile sessions where `usize` is 32 bits wide and the byte order differs.")
for _v, _tiers in (("miri", ["thorough"]), ("miri-mips", ["quick", "thorough"]), ("miri-i686", ["thorough"]), ("miri-s390x", ["thorough"])):
    PLANS["C17"]["stages"].append({"variant": _v, "workload": "C17-sample", "tiers": _tiers, "timeout_quick": 1500, "timeout_thorough": 7200})
PLANS["C17"]["rule"] += (" Sample stage: 290 (quick) / 1,250 (thorough) scalar values (first and last of every encoded length, both sides of the surrogate gap, edge octets, noncharacters, seeded random ones) "
                         "through the pure helpers and, for a sixth of them, the Cli mini-session, interpreted by Miri for a 32-bit big-endian target (thorough: also the host, i686 and s390x): "
                         "the same comparisons against core where pointers are 32 bits wide and the byte order differs, with every unsafe operation checked.")
PLANS["C17"]["min_counts"]["quick"].update({"c17.sample.scalars": 250})
PLANS["C17"]["min_counts"]["thorough"].update({"c17.sample.scalars": 4000})

# the behavioural monitors on a 32-bit big-endian target (Miri, thorough tier only: about nine seconds per session)
for _p in ("C01", "C05", "C10", "C06"):
    PLANS[_p]["stages"].append({"variant": "miri-mips", "workload": _p, "args_thorough": ["--scale", "0.00005"], "tiers": ["thorough"], "timeout_thorough": 7200})
    PLANS[_p]["rule"] += " Thorough tier: about 190 of the random sessions under all monitors interpreted by Miri for a 32-bit big-endian target (mips-unknown-linux-gnu)."
