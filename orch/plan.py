"""Build variants and per-property plans (stages, evidence rules, minimum observation counts)."""

NIGHTLY = ["+nightly"]

VARIANTS = {
    # debug assertions => std ub_checks + crate debug_assert!s + overflow checks
    "dbg": {"bin": "debug/vrun", "cargo_args": []},
    # optimised, checks still on: the big enumerations
    "fast": {"bin": "fast/vrun", "cargo_args": ["--profile", "fast"]},
    # what a user ships (every check compiled out) -- for valgrind memcheck
    "rel": {"bin": "rel/vrun", "cargo_args": ["--profile", "rel"]},
    "vg": {"bin": "rel/vrun", "target_dir": "rel", "cargo_args": ["--profile", "rel"],
           "wrap": ["valgrind", "--quiet", "--error-exitcode=97", "--exit-on-first-error=no", "--track-origins=no", "--leak-check=no"]},
    "asan": {"bin": "x86_64-unknown-linux-gnu/rel/vrun", "toolchain": NIGHTLY,
             "cargo_args": ["--profile", "rel", "--target", "x86_64-unknown-linux-gnu"],
             "env": {"RUSTFLAGS": "-Zsanitizer=address -Cforce-frame-pointers=yes"},
             "run_env": {"ASAN_OPTIONS": "halt_on_error=1:abort_on_error=1:detect_leaks=0:symbolize=1"}},
}

# the eight feature subsets (C16)
for hist in (0, 1):
    for ac in (0, 1):
        for hp in (0, 1):
            feats = [f for f, on in (("history", hist), ("autocomplete", ac), ("help", hp)) if on]
            name = "feat-%d%d%d" % (hist, ac, hp)
            VARIANTS[name] = {"bin": "debug/vrun", "cargo_args": ["--no-default-features"] + (["--features", ",".join(feats)] if feats else [])}

SESSION_ASSUME = [
    "keys are attributed with a second real InputGenerator fed the same bytes (bytes->keys is judged by C04 alone)",
    "hooked editor/history state is read through the verif-hooks accessors at quiescent points only",
    "terminal emulator: unbounded width, width-1 glyphs, ECMA-48 CR LF BS CUF CUB CHA DCH ICH ECH EL; anything else => inconclusive",
]


def session_plan(level_rule, mins_quick, mins_thorough, extra_stages=None):
    return {
        "level": "exploration",
        "rule": level_rule,
        "assumptions": SESSION_ASSUME,
        "min_counts": {"quick": mins_quick, "thorough": mins_thorough},
    }


PLANS = {}

PLANS["C01"] = dict(session_plan(
    "seeded random sessions (config + op list) over the 13-symbol alphabet, all key kinds, all buffer sizes incl. 0 and 1, three command sets; "
    "one evaluation = one monitor clause evaluated on an observed event; distinct = hash of (buffer size class, token shape of the line at Enter, buffer full?)",
    {"c01.enter.dispatched": 20000, "c01.enter.suppressed": 5000, "c01.enter_on_full_buffer": 2000},
    {"c01.enter.dispatched": 800000, "c01.enter.suppressed": 200000, "c01.enter_on_full_buffer": 80000}),
    stages=[{"variant": "dbg", "workload": "C01"}])

PLANS["C05"] = dict(session_plan(
    "seeded random edit sessions + closure of the editor state space in small buffers; distinct = hash of (capacity, byte length, cursor, widths signature, key)",
    {"c05.insert.accepted": 100000, "c05.insert.rejected": 20000, "c05.insert.inside": 10000, "c05.backspace.effective": 10000},
    {"c05.insert.accepted": 4000000, "c05.insert.rejected": 800000, "c05.insert.inside": 400000, "c05.backspace.effective": 400000}),
    stages=[{"variant": "dbg", "workload": "C05"}])

PLANS["C06"] = dict(session_plan(
    "seeded random sessions with Cli::write / set_prompt injected between any two bytes and handler-side prompt changes; after every call the emulator row and column are compared; "
    "distinct = hash of (capacity, byte length, cursor, kind of call, prompt)",
    {"c06.injected.cursor_inside": 2000, "c06.injected.cursor_at_end": 10000},
    {"c06.injected.cursor_inside": 80000, "c06.injected.cursor_at_end": 400000}),
    stages=[{"variant": "dbg", "workload": "C06"}])

PLANS["C10"] = dict(session_plan(
    "seeded random sessions submitting lines from a small pool (duplicates are the norm) with Up/Down at every point, all history sizes, end-of-session probe walking past both ends; "
    "distinct = hash of (budget, multiset of stored entry lengths, event kind)",
    {"c10.submit.recorded": 20000, "c10.dedupe.older": 1000, "c10.evict.1": 2000, "c10.evict.2": 300, "c10.submit.too_long": 2000, "c10.up": 50000, "c10.down.past_newest": 10000},
    {"c10.submit.recorded": 800000, "c10.dedupe.older": 40000, "c10.evict.1": 80000, "c10.evict.2": 12000, "c10.submit.too_long": 80000, "c10.up": 2000000, "c10.down.past_newest": 400000}),
    stages=[{"variant": "dbg", "workload": "C10"}])

PLANS["C13"] = dict(session_plan(
    "seeded random sessions; handler output and Cli::write texts over printable scalars with LF / CR LF anywhere, split over 0-4 calls of every form (write_str, writeln_str, uwrite!, core::fmt); "
    "distinct = hash of (text shape, number of calls, cursor inside?, line empty?, line full?)",
    {"c13.write_calls": 20000, "c13.write_with_cursor_inside": 2000, "c13.handler_outputs_nonempty": 5000},
    {"c13.write_calls": 800000, "c13.write_with_cursor_inside": 80000, "c13.handler_outputs_nonempty": 200000}),
    stages=[{"variant": "dbg", "workload": "C13"}])

PLANS["C15"] = dict(session_plan(
    "every API call of seeded random sessions (typing, editing, recall, completion, Enter with handler output / parse errors / help, Cli::write, set_prompt, build); "
    "clause: no byte written after the last flush when the call returns Ok; distinct = hash of (kind of call, cursor inside?, handler ran?, bytes written)",
    {"c15.calls_that_wrote": 300000},
    {"c15.calls_that_wrote": 12000000}),
    stages=[{"variant": "dbg", "workload": "C15"}])

# ---------------------------------------------------------------- MANIFEST texts

NOT_APPLICABLE = {}

_SESSION_NOTE = ("Trusted base: the harness (reference models, terminal emulator, shadow decoder = a second real InputGenerator), "
                 "rustc/cargo, the verif-hooks accessors. Says nothing about executions the generators do not produce.")

MANIFEST_TEXT = {
    "C01": {"technique": "runtime monitoring: lockstep reference tokenizer/classifier + exactly-once dispatch monitor on handler log, hooked line and sink tail per Enter",
            "design_ref": "DESIGN.md §6 C01",
            "text": "Held on every Enter of ~2.4e4 (quick) / 1e6 (thorough) seeded random editing sessions incl. recall, completion, inside-inserts, multi-byte characters, buffer sizes 0..64; exploration only, no claim beyond the sessions run.",
            "note": _SESSION_NOTE},
    "C05": {"technique": "runtime monitoring: ideal Vec<char> editor in lockstep with the hooked editor state after every byte; state-space closure of the real Editor in small buffers",
            "design_ref": "DESIGN.md §6 C05",
            "text": "Lockstep equality with an ideal scalar-value editor after every key of the random sessions, plus exhaustive closure of the real editor's reachable states for capacities 0..=6 over characters of all four UTF-8 lengths.",
            "note": _SESSION_NOTE},
    "C06": {"technique": "runtime monitoring: ECMA-48 terminal emulator fed the sink bytes, row and cursor column compared with prompt + hooked line after every API call",
            "design_ref": "DESIGN.md §6 C06",
            "text": "Emulator row/column equality after every call of random sessions with writes and prompt changes injected between any two input bytes; exploration.",
            "note": _SESSION_NOTE + " Assumes width-1 glyphs and an unbounded-width terminal."},
    "C10": {"technique": "runtime monitoring: set-valued history model vs hooked line after Up/Down and raw stored entries after every Enter; closure of the real History for small budgets",
            "design_ref": "DESIGN.md §6 C10",
            "text": "Every recall and every stored-entries snapshot of the random sessions matches the model (open points of the statement kept as alternatives); closure of the real History component for budgets 0..=12.",
            "note": _SESSION_NOTE},
    "C13": {"technique": "runtime monitoring: byte-exact framing oracle on the sink bytes of each Enter, emulator-row oracle for Cli::write",
            "design_ref": "DESIGN.md §6 C13",
            "text": "Handler output framing checked byte-exactly and Cli::write framing checked on emulator rows + contiguous converted text, for texts with LF/CR LF anywhere split over 0-4 calls of every write form, at arbitrary points of random sessions.",
            "note": _SESSION_NOTE},
    "C15": {"technique": "runtime monitoring: write/flush event order on the monitored sink at every successful return",
            "design_ref": "DESIGN.md §6 C15",
            "text": "No write event after the last flush at the return of every API call of the random sessions (echo, recall, completion, handler output, parse errors, help, Cli::write, set_prompt, build).",
            "note": _SESSION_NOTE},
}
