#!/usr/bin/env python3
"""Run checks against a seeded change: apply <patch> to /repo, run the listed checks (default: all, quick),
restore /repo.  usage: orch/seedtest.py <patch.diff> [--tier quick] [--seed N] [C01 C05 ...]"""
import sys, subprocess, os, json, time
ROOT = os.path.dirname(os.path.dirname(os.path.abspath(__file__)))
ALL = ["C%02d" % i for i in range(1, 18)]
args = sys.argv[1:]
patch = os.path.abspath(args[0])
tier, seed, props = "quick", "1", []
i = 1
while i < len(args):
    if args[i] == "--tier":
        tier = args[i + 1]; i += 2
    elif args[i] == "--seed":
        seed = args[i + 1]; i += 2
    else:
        props.append(args[i]); i += 1
props = props or ALL
st = subprocess.run(["git", "-C", "/repo", "status", "--porcelain", "--untracked-files=no"], stdout=subprocess.PIPE, text=True).stdout.strip()
if st:
    print("refusing: /repo has local modifications:\n" + st); sys.exit(2)
r = subprocess.run(["git", "-C", "/repo", "apply", patch])
if r.returncode != 0:
    print("patch does not apply"); sys.exit(2)
res = {}
try:
    for p in props:
        t0 = time.time()
        env = dict(os.environ, VERIF_SEED=seed)
        o = subprocess.run([os.path.join(ROOT, "check"), p, "--tier", tier], cwd=ROOT, stdout=subprocess.PIPE, stderr=subprocess.PIPE, text=True, env=env)
        lines = [l for l in o.stdout.splitlines() if l.startswith(("VIOLATION", "HELD", "INCONCLUSIVE", "KNOWN", "  clause"))]
        res[p] = {"rc": o.returncode, "s": round(time.time() - t0, 1), "lines": lines[:6]}
        print("%s rc=%d %.0fs %s" % (p, o.returncode, time.time() - t0, " | ".join(l[:260] for l in lines[:3])), flush=True)
finally:
    subprocess.run(["git", "-C", "/repo", "checkout", "--", "."])
    st = subprocess.run(["git", "-C", "/repo", "status", "--porcelain", "--untracked-files=no"], stdout=subprocess.PIPE, text=True).stdout.strip()
    print("/repo restored" if not st else "WARNING /repo not clean: " + st)
caught = [p for p in res if res[p]["rc"] == 1]
print("CAUGHT BY:", caught)
json.dump(res, open("/tmp/seedtest-last.json", "w"), indent=1)
