#!/usr/bin/env python3
import os, sys, subprocess, importlib.util, importlib.machinery
from concurrent.futures import ThreadPoolExecutor
ROOT = os.path.dirname(os.path.dirname(os.path.abspath(__file__)))
spec = importlib.util.spec_from_file_location("check", os.path.join(ROOT, "check"), loader=importlib.machinery.SourceFileLoader("check", os.path.join(ROOT, "check")))
check = importlib.util.module_from_spec(spec)
sys.argv = ["check"]
spec.loader.exec_module(check)
from plan import PLANS
variants = []
for p in PLANS.values():
    for st in p["stages"]:
        for v in st.get("variants", [st.get("variant")]):
            if v and v not in variants and v in check.VARIANTS and not check.VARIANTS[v].get("no_prebuild"):
                variants.append(v)
# cargo in different target dirs parallelises fine
with ThreadPoolExecutor(max_workers=4) as ex:
    res = list(ex.map(check.build_variant, variants))
bad = [r for r in res if not r[0]]
for ok, msg in bad:
    print(msg, file=sys.stderr)
print("setup: built %d variants, %d failed" % (len(variants), len(bad)))
sys.exit(1 if bad else 0)
