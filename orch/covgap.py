#!/usr/bin/env python3
"""dev diagnostic (not a check): which lines of /repo/embedded-cli/src/*.rs (outside `mod tests`) does the union of the quick
workloads never execute?  usage: orch/covgap.py [--with-decls]   (source-based coverage, nightly; output build/covgap/report.txt)"""
import os, sys, subprocess, glob, shutil, re, json
ROOT = os.path.dirname(os.path.dirname(os.path.abspath(__file__)))
sys.path.insert(0, os.path.join(ROOT, "orch"))
import plan
BUILD = os.path.join(ROOT, "build"); HARNESS = os.path.join(ROOT, "harness")
out = os.path.join(BUILD, "covgap"); prof = os.path.join(out, "prof")
shutil.rmtree(prof, ignore_errors=True); os.makedirs(prof, exist_ok=True)
tdir = os.path.join(BUILD, "cov")
ENV = dict(os.environ, CARGO_NET_OFFLINE="true")
env = dict(ENV, CARGO_TARGET_DIR=tdir, RUSTFLAGS="-Cinstrument-coverage", LLVM_PROFILE_FILE=os.path.join(out, "buildprof", "b-%p-%m.profraw"))
p = subprocess.run(["cargo", "+nightly", "build", "--offline", "--bin", "vrun"], cwd=HARNESS, env=env)
if p.returncode: sys.exit(2)
binary = os.path.join(tdir, "debug", "vrun")
wls = []
for pid, pl in sorted(plan.PLANS.items()):
    for st in pl["stages"]:
        if st.get("variant") in ("dbg", "fast") and st["workload"] not in wls and "quick" in st.get("tiers", ["quick"]):
            wls.append(st["workload"])
wls += ["C16", "C03-lean"]
print("workloads:", wls)
renv = dict(ENV, LLVM_PROFILE_FILE=os.path.join(prof, "p-%p-%m.profraw"))
from concurrent.futures import ThreadPoolExecutor
def run(wl):
    scale = "0.02" if ("direct" in wl or "scalars" in wl or wl == "C17" or "closure" in wl) else "0.05"
    try:
        subprocess.run([binary, wl, "--tier", "quick", "--seed", "1", "--shard", "0", "--nshards", "16", "--scale", scale, "--out", os.path.join(prof, wl + ".json")], env=renv, stdout=subprocess.DEVNULL, stderr=subprocess.DEVNULL, timeout=900)
    except subprocess.TimeoutExpired:
        print("timeout", wl)
with ThreadPoolExecutor(max_workers=8) as ex:
    list(ex.map(run, wls))
objs = [binary]
if "--with-decls" in sys.argv:
    gen = os.path.join(out, "gen"); os.makedirs(os.path.join(gen, "src", "bin"), exist_ok=True)
    open(os.path.join(gen, "Cargo.toml"), "w").write(open(os.path.join(ROOT, "orch", "declbatch.Cargo.toml")).read().replace("../../harness", HARNESS))
    shutil.copy(os.path.join(HARNESS, "Cargo.lock"), os.path.join(gen, "Cargo.lock"))
    subprocess.run([binary, "gen-decls", "--seed", "1", "0", "30", "20", os.path.join(gen, "src", "bin", "q0.rs")], env=ENV, check=True)
    gt = os.path.join(BUILD, "cov-gen")
    genv = dict(env, CARGO_TARGET_DIR=gt)
    p = subprocess.run(["cargo", "+nightly", "build", "--offline", "--bins"], cwd=gen, env=genv)
    if p.returncode == 0:
        gb = os.path.join(gt, "debug", "q0")
        for mode in ("C09", "C12", "C11"):
            subprocess.run([gb, "--mode", mode, "--tier", "quick", "--out", os.path.join(prof, "decl-%s.json" % mode)], env=renv, stdout=subprocess.DEVNULL, stderr=subprocess.DEVNULL)
        objs.append(gb)
sysroot = subprocess.run(["rustc", "+nightly", "--print", "sysroot"], stdout=subprocess.PIPE, text=True).stdout.strip()
tools = os.path.join(sysroot, "lib", "rustlib", "x86_64-unknown-linux-gnu", "bin")
pd = os.path.join(out, "all.profdata")
subprocess.run([os.path.join(tools, "llvm-profdata"), "merge", "-sparse", "-o", pd] + glob.glob(os.path.join(prof, "*.profraw")), check=True)
repo = os.path.realpath(open(os.path.join(HARNESS, "Cargo.toml")).read().split('embedded-cli = { path = "')[1].split('"')[0] + "/..")
srcs = sorted(glob.glob(repo + "/embedded-cli/src/*.rs"))
cmd = [os.path.join(tools, "llvm-cov"), "export", "-format=lcov", "-instr-profile", pd, objs[0]]
for o in objs[1:]: cmd += ["-object", o]
r = subprocess.run(cmd + srcs, stdout=subprocess.PIPE, stderr=subprocess.PIPE, text=True)
hits = {}; cur = None
for line in r.stdout.splitlines():
    if line.startswith("SF:"): cur = line[3:]
    elif line.startswith("DA:") and cur:
        ln, cnt = line[3:].split(",")[:2]
        hits[(cur, int(ln))] = max(hits.get((cur, int(ln)), 0), int(cnt))
rep = []
tot = miss = 0
for f in srcs:
    lines = open(f).read().splitlines()
    test_at = next((i for i, l in enumerate(lines) if re.match(r"\s*mod tests?\b", l)), len(lines))
    for i, l in enumerate(lines[:test_at]):
        k = (f, i + 1)
        if k in hits:
            tot += 1
            if hits[k] == 0:
                miss += 1
                rep.append("%s:%d: %s" % (os.path.basename(f), i + 1, l.rstrip()))
open(os.path.join(out, "report.txt"), "w").write("\n".join(rep) + "\n")
print("instrumented lines %d, never executed %d -> %s" % (tot, miss, os.path.join(out, "report.txt")))
