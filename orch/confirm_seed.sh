#!/bin/sh
# confirm a seeded change in its scratch worktree: tests pass with the patch; the demo (an integration
# test file) fails with it and passes without it.  usage: confirm_seed.sh <worktree> <n> [demo file name]
wt=$1; n=$2; demo=${3:-demo.rs}
cd $wt || exit 2
export CARGO_TARGET_DIR=$wt/target CARGO_NET_OFFLINE=true
git checkout -q -- . ; rm -f embedded-cli/tests/seed_demo.rs
git apply seeded/$n/patch.diff || { echo "PATCH DOES NOT APPLY"; exit 2; }
REL=$(grep -q -- "--release" seeded/$n/notes.md 2>/dev/null && echo --release)
echo "== full suite with patch"; [ -n "$REL" ] && cargo test --workspace --offline --release 2>&1 | grep -E "FAILED|error(\[|:)" | head -3; cargo test --workspace --offline 2>&1 | grep -E "^test result|FAILED|error(\[|:)" | sort | uniq -c
cp seeded/$n/$demo embedded-cli/tests/seed_demo.rs
echo "== demo with patch (must fail)"; cargo test -p embedded-cli --offline $REL --test seed_demo 2>&1 | grep -E "^test result|error(\[|:)" | head -3
git checkout -q -- .
echo "== demo without patch (must pass)"; cargo test -p embedded-cli --offline $REL --test seed_demo 2>&1 | grep -E "^test result|error(\[|:)" | head -3
rm -f embedded-cli/tests/seed_demo.rs; git status --short | grep -v seeded | head
