#!/bin/sh
# dev helper: a private copy of /verif (committed HEAD + working tree, no build output) and a scratch worktree of /repo under
# <dir> (default /tmp/sb), with every /repo path in the copy rewritten -- so that seeded changes can be applied and checked
# there while /repo itself stays untouched. Remove with: orch/sandbox.sh --remove [dir]
if [ "$1" = "--remove" ]; then d=${2:-/tmp/sb}; git -C /repo worktree remove --force $d/repo 2>/dev/null; rm -rf $d; exit 0; fi
d=${1:-/tmp/sb}
mkdir -p $d
[ -d $d/repo ] || git -C /repo worktree add --detach $d/repo HEAD >/dev/null 2>&1
git -C $d/repo checkout -q --detach $(git -C /repo rev-parse HEAD); git -C $d/repo checkout -q -- .
rsync -a --delete --exclude build --exclude replays --exclude .git /verif/ $d/verif/
for f in harness/Cargo.toml orch/declbatch.Cargo.toml orch/seedtest.py orch/custom.py harness/fuzz/Cargo.toml; do
  [ -f $d/verif/$f ] && sed -i "s#\"/repo#\"$d/repo#g; s#'/repo#'$d/repo#g" $d/verif/$f
done
grep -n "$d/repo" $d/verif/harness/Cargo.toml | head -2
