#!/bin/sh
# dev helper: run one worker shard and summarise.  usage: orch/w.sh <workload> [extra vrun args]
wl=$1; shift
/usr/bin/time -f "%es" /verif/build/dbg/debug/vrun $wl --seed 1 --shard 0 --nshards 16 "$@" | python3 -c "
import json,sys
try: d=json.load(sys.stdin)
except Exception as e: print('no json', e); sys.exit(1)
print('cases',d['cases'],'evals',d['evaluations'],'distinct',d['distinct_local'], d['distinct_disjoint'])
print({k:v for k,v in d['counters'].items() if not k.startswith('c05.') or '$wl'.startswith('C05')})
print(d['violation_counts'])
for v in d['violations'][:14]: print(' -',v['property'],v['clause'],v['tag'],'|',v['detail'][:360])
print(d['inconclusive'])
"
