"""Custom stages."""
import os, json


def c16_differential(pid, stage, tier, seed, outdir, chk):
    """Run the C16 session workload on all eight feature builds; per-build monitors report
    inside the workers; here the transcripts (sink bytes + flush positions, handler records,
    editor state, hashed per session) are compared across builds for every session that never
    touched a facility in which the two builds differ."""
    total = chk.new_merge()
    total["stage"] = "all-8-feature-builds/C16 + cross-build transcript comparison"
    total["stage_extra"] = {"builds": []}
    per = {}
    from concurrent.futures import ThreadPoolExecutor
    names = sorted(k for k in chk.VARIANTS if k.startswith("feat-"))
    with ThreadPoolExecutor(max_workers=4) as ex:
        for ok, msg in ex.map(chk.build_variant, names):
            if not ok:
                return {"build_error": msg}
    def reattribute(m, name):
        # "comparing against the reference model configured the same way": a clause of any behavioural monitor that
        # fails in this build is this build not behaving as its configuration says -- reported under C16, named after
        # the monitor that saw it and the build
        for v in m["violations"]:
            if isinstance(v.get("replay"), dict) and v["replay"].get("kind") == "session":
                v["replay"]["variant"] = name  # replay in the build that showed it
            if v["property"] != pid:
                v["clause"] = "%s:%s" % (v["property"], v["clause"])
                v["tag"] = "%s@%s" % (v["tag"], name)
                v["property"] = pid
        vc = {}
        for k, n in m["violation_counts"].items():
            pr, cl, tg = k.split("|", 2)
            if pr != pid:
                k = "%s|%s:%s|%s@%s" % (pid, pr, cl, tg, name)
            vc[k] = vc.get(k, 0) + n
        m["violation_counts"] = vc

    for name in sorted(k for k in chk.VARIANTS if k.startswith("feat-")):
        # closure of small-buffer sessions under this build's monitors
        st = {"variant": name, "workload": "C16-sclosure", "crash_props": ["C16"], "args_quick": ["--scale", "0.25"], "args_thorough": ["--scale", "0.25"]}
        mc = chk.run_stage(pid, st, tier, seed, outdir)
        if "build_error" in mc:
            return mc
        reattribute(mc, name)
        # a failing sink in this build: every call position of the scenario corpus, and random scenarios (a tenth of C14's budget)
        for wl14, extra in (("C14", []), ("C14-random", ["--scale", "0.1"])):
            st = {"variant": name, "workload": wl14, "crash_props": ["C16"], "args": extra}
            m14 = chk.run_stage(pid, st, tier, seed, outdir)
            if "build_error" in m14:
                return m14
            reattribute(m14, name)
            chk.merge_merged(total, m14)
        st = {"variant": name, "workload": "C16", "crash_props": ["C16"]}
        m = chk.run_stage(pid, st, tier, seed, outdir)
        if "build_error" in m:
            # "under every combination the library builds" is part of the property: but a build
            # failure of the harness is indistinguishable here, so it stays a build error
            return m
        per[name] = m.get("transcripts", {})
        chk.merge_merged(total, mc)
        reattribute(m, name)
        total["stage_extra"]["builds"].append({"build": name, "sessions": m["cases"], "violations": sum(m["violation_counts"].values())})
        chk.merge_merged(total, m)
    full = per.get("feat-111", {})
    compared = 0
    skipped = 0
    for name, tr in per.items():
        if name == "feat-111":
            continue
        bits = name.split("-")[1]
        # facility mask of what this build lacks: bit0 history(Up/Down) bit1 autocomplete(Tab) bit2 help
        lacking = (0 if bits[0] == "1" else 1) | (0 if bits[1] == "1" else 2) | (0 if bits[2] == "1" else 4)
        for key, (touched, h) in tr.items():
            if key not in full:
                continue
            ftouched, fh = full[key]
            if (touched | ftouched) & lacking:
                skipped += 1
                continue
            compared += 1
            if h != fh:
                shard, idx = key.split(":")
                tag = "transcript-differs-%s" % name
                v = {"property": "C16", "clause": "cross-build", "tag": tag, "size": 1,
                     "detail": "session %s of shard %s never uses a facility that %s lacks, yet its transcript (sink bytes, flushes, handler records, editor state) differs from the all-features build" % (idx, shard, name),
                     "replay": {"kind": "case", "workload": "C16", "variant": name, "tier": tier, "seed": seed, "shard": int(shard), "nshards": chk.NCPU, "case": int(idx), "args": []}}
                k = "C16|cross-build|%s" % tag
                total["violation_counts"][k] = total["violation_counts"].get(k, 0) + 1
                if total["violation_counts"][k] <= 3:
                    total["violations"].append(v)
    total["counters"]["c16.transcripts_compared"] = compared
    total["counters"]["c16.transcripts_not_comparable(touch a disabled facility)"] = skipped
    total["evaluations"] += compared
    return total


def declbatch(pid, stage, tier, seed, outdir, chk):
    """Generated declarations: emit Rust source with the derives for `nb` batches (deterministic in
    the seed), compile them against /repo's macros, run every batch binary under the monitors of
    `pid`, merge. The batch binaries regenerate the spec from the same seed."""
    import subprocess, time, fcntl, glob, re
    from concurrent.futures import ThreadPoolExecutor
    t0 = time.time()
    ok, vrun = chk.build_variant("dbg")
    if not ok:
        return {"build_error": vrun}
    nb, nfull, nnames = stage["batches_" + tier]
    feats = stage.get("features")  # None = default features
    label = "" if feats is None else "-" + (feats.replace(",", "_") or "none")
    prof = stage.get("profile")  # None = the batch crate's dev profile (debug assertions on); "rel" = release profile
    if prof:
        label += "-" + prof
    mode = stage.get("mode", pid)
    gen = os.path.join(chk.BUILD, "gen" + label)
    tdir = os.path.join(chk.BUILD, "gen-target" + label)
    os.makedirs(os.path.join(gen, "src", "bin"), exist_ok=True)
    lock = open(os.path.join(chk.BUILD, "gen%s.lock" % label), "w")
    fcntl.flock(lock, fcntl.LOCK_EX)
    merged = chk.new_merge()
    merged["stage"] = "generated-declarations/%s%s%s (%d batches x %d full + %d name-set declarations)" % (mode, " features=[%s]" % feats if feats is not None else "", " profile=%s" % prof if prof else "", nb, nfull, nnames)
    merged["stage_extra"] = {}
    try:
        cargo_toml = open(os.path.join(chk.ROOT, "orch", "declbatch.Cargo.toml")).read()
        if feats is not None:
            fl = ", ".join('"%s"' % f for f in feats.split(",") if f)
            cargo_toml = cargo_toml.replace('vharness = { path = "../../harness" }', 'vharness = { path = "../../harness", default-features = false, features = [%s] }' % fl)
        ct = os.path.join(gen, "Cargo.toml")
        if not os.path.exists(ct) or open(ct).read() != cargo_toml:
            open(ct, "w").write(cargo_toml)
        shutil_copy = os.path.join(gen, "Cargo.lock")
        if not os.path.exists(shutil_copy):
            import shutil
            shutil.copy(os.path.join(chk.HARNESS, "Cargo.lock"), shutil_copy)
        want = {}
        for b in range(nb):
            name = "%s%d" % ("q" if tier == "quick" else "t", b)
            path = os.path.join(gen, "src", "bin", name + ".rs")
            tmp = path + ".new"
            p = subprocess.run([vrun, "gen-decls", "--seed", str(seed), str(b), str(nfull), str(nnames), tmp], env=chk.ENV_BASE, stdout=subprocess.PIPE, stderr=subprocess.PIPE)
            if p.returncode != 0:
                merged["inconclusive"].append("declaration generator failed: %s" % p.stderr.decode()[-300:])
                return merged
            # keep the old file (and its mtime) when nothing changed: no recompile
            if os.path.exists(path) and open(path).read() == open(tmp).read():
                os.remove(tmp)
            else:
                os.replace(tmp, path)
            want[name] = b
        for f in glob.glob(os.path.join(gen, "src", "bin", "*.rs")):
            if os.path.basename(f)[:-3] not in want:
                os.remove(f)
        env = dict(chk.ENV_BASE, CARGO_TARGET_DIR=tdir)
        p = subprocess.run(["cargo", "build", "--offline", "--bins"] + (["--profile", prof] if prof else []), cwd=gen, env=env, stdout=subprocess.PIPE, stderr=subprocess.STDOUT, text=True)
        merged["stage_extra"]["compile_s"] = round(time.time() - t0, 1)
        if p.returncode != 0:
            errs = [l for l in p.stdout.splitlines() if l.startswith("error")]
            # a declaration the grammar produced but the macro rejects is a generator problem, not a violation;
            # /repo not compiling at all is a build error. Either way nothing was observed.
            # /repo and the harness (with its fixed corpus of derived sets) compiled -- build_variant above -- so an error
            # located in the generated source means: the macros turned a declaration of the grammar (every one of which the
            # unchanged macros accept) into something that does not compile, or now reject it. That is an observation about
            # the generated program, not a build problem. Anything else (no such location) stays a build error.
            loc = re.search(r"--> (src/bin/(\w+)\.rs):(\d+)", p.stdout)
            if loc and errs:
                binname, line = loc.group(2), int(loc.group(3))
                decl = -1
                try:
                    src = open(os.path.join(gen, loc.group(1))).read().splitlines()
                    for ln in range(min(line, len(src)) - 1, -1, -1):
                        mm = re.match(r"\s*pub mod d(\d+) \{", src[ln])
                        if mm:
                            decl = int(mm.group(1))
                            break
                except Exception:
                    pass
                tagc = re.sub(r"[^a-z]+", "-", errs[0].lower())[:60].strip("-")
                merged["violations"].append({"property": pid, "clause": "generated-declaration-does-not-compile", "tag": tagc, "size": 1,
                                             "detail": "batch %s, declaration %d: the code the derive macros generate for a declaration of the grammar does not compile (the unchanged macros accept every declaration of the grammar): %s" % (binname, decl, " / ".join(errs[:3])),
                                             "replay": {"kind": "declbatch", "seed": seed, "batch": want.get(binname, 0), "n_full": nfull, "n_names": nnames, "decl": decl, "mode": mode, "bin": binname, "tier": tier, "features": feats,
                                                        "stage": {k: stage[k] for k in stage if k.startswith("batches_")}}})
                k = "%s|generated-declaration-does-not-compile|%s" % (pid, tagc)
                merged["violation_counts"][k] = 1
                merged["counters"]["declarations_compiled"] = 0
                return merged
            return {"build_error": "generated declarations do not compile: %s\n%s" % (errs[0] if errs else "?", p.stdout[-2500:])}

        def run(name):
            out = os.path.join(outdir, "decl-%s-%s.json" % (pid, name))
            if os.path.exists(out):
                os.remove(out)
            cmd = [os.path.join(tdir, prof or "debug", name), "--mode", mode, "--tier", tier, "--out", out]
            try:
                r = subprocess.run(cmd, stdout=subprocess.PIPE, stderr=subprocess.PIPE, timeout=stage.get("timeout", 3000), env=chk.ENV_BASE)
                return name, r.returncode, r.stderr.decode("utf8", "replace"), out
            except subprocess.TimeoutExpired:
                return name, "timeout", "", out
        with ThreadPoolExecutor(max_workers=chk.NCPU) as ex:
            results = list(ex.map(run, sorted(want)))
        for name, rc, err, out in results:
            if rc == 0 and os.path.exists(out):
                r = json.load(open(out))
                for v in r.get("violations", []):
                    v["replay"]["bin"] = name
                    v["replay"]["features"] = feats
                    v["replay"]["profile"] = prof
                    v["replay"]["mode"] = mode
                    v["replay"]["tier"] = tier
                    v["replay"]["stage"] = {k: stage[k] for k in stage if k.startswith("batches_")}
                if mode != pid:
                    # monitors of another property run on behalf of this one (C16: per-build behaviour)
                    for v in r.get("violations", []):
                        v["clause"] = "%s:%s" % (v["property"], v["clause"])
                        v["tag"] = "%s%s" % (v["tag"], label)
                        v["property"] = pid
                    r["violation_counts"] = {"%s|%s:%s|%s%s" % (pid, k.split("|")[0], k.split("|")[1], k.split("|")[2], label): n for k, n in r.get("violation_counts", {}).items()}
                chk.merge_into(merged, r)
            elif rc == "timeout":
                merged["inconclusive"].append("batch %s: wall-clock watchdog" % name)
            else:
                m = re.search(r"VRUN-CRASH case=(\d+)", err)
                decl = int(m.group(1)) if m else -1
                if decl < 0 or decl == 18446744073709551615:
                    # died outside any declaration run (generator / harness code): nothing was observed
                    merged["inconclusive"].append("batch %s: harness failed rc=%s outside a declaration run: %s" % (name, rc, err[-400:]))
                    continue
                tagc = chk.crash_tag(err)
                merged["violations"].append({"property": pid, "clause": "crash", "tag": tagc, "size": 1,
                                             "detail": "batch %s died (rc=%s) while running declaration %d: %s" % (name, rc, decl, chk.crash_summary(err)),
                                             "replay": {"kind": "declbatch", "seed": seed, "batch": want[name], "n_full": nfull, "n_names": nnames, "decl": decl, "mode": pid, "bin": name, "tier": tier}})
                k = "%s|crash|%s" % (pid, tagc)
                merged["violation_counts"][k] = merged["violation_counts"].get(k, 0) + 1
        merged["counters"]["declarations_compiled"] = nb * (nfull + nnames)
    finally:
        fcntl.flock(lock, fcntl.LOCK_UN)
        lock.close()
    merged["wall"] = time.time() - t0
    return merged


def fuzz_c03(pid, stage, tier, seed, outdir, chk):
    """C03 (d): coverage-guided op lists (libFuzzer via cargo-fuzz, ASan, debug assertions off) into the lean driver."""
    import subprocess, time, glob, re, shutil
    t0 = time.time()
    merged = chk.new_merge()
    merged["stage"] = "libfuzzer+asan/C03 lean driver"
    merged["stage_extra"] = {}
    fdir = os.path.join(chk.HARNESS, "fuzz")
    tdir = os.path.join(chk.BUILD, "fuzz")
    corpus = os.path.join(chk.BUILD, "fuzz-corpus")
    art = os.path.join(outdir, "fuzz-art")
    shutil.rmtree(art, ignore_errors=True)
    os.makedirs(art, exist_ok=True)
    os.makedirs(corpus, exist_ok=True)
    if not os.path.exists(os.path.join(fdir, "Cargo.lock")):
        shutil.copy(os.path.join(chk.HARNESS, "Cargo.lock"), os.path.join(fdir, "Cargo.lock"))
    env = dict(chk.ENV_BASE, CARGO_TARGET_DIR=tdir)
    p = subprocess.run(["cargo", "+nightly", "fuzz", "build", "ops"], cwd=fdir, env=env, stdout=subprocess.PIPE, stderr=subprocess.STDOUT, text=True)
    if p.returncode != 0:
        return {"build_error": "cargo fuzz build failed: " + p.stdout[-1500:]}
    secs = stage.get("seconds", 120)
    cmd = ["cargo", "+nightly", "fuzz", "run", "ops", corpus, "--", "-max_total_time=%d" % secs, "-timeout=10", "-len_control=0", "-max_len=512",
           "-seed=%d" % seed, "-fork=%d" % chk.NCPU, "-ignore_crashes=1", "-artifact_prefix=%s/" % art, "-print_final_stats=1"]
    try:
        r = subprocess.run(cmd, cwd=fdir, env=env, stdout=subprocess.PIPE, stderr=subprocess.STDOUT, text=True, timeout=secs + 600)
        out = r.stdout
    except subprocess.TimeoutExpired as e:
        merged["inconclusive"].append("libFuzzer: wall-clock watchdog")
        out = (e.stdout or b"").decode("utf8", "replace") if isinstance(e.stdout, bytes) else (e.stdout or "")
    runs = 0
    for m in re.finditer(r"#(\d+): cov: (\d+)", out):
        runs = max(runs, int(m.group(1)))
    cov = re.findall(r"cov: (\d+)", out)
    merged["evaluations"] = runs
    merged["cases"] = runs
    merged["counters"]["c03.fuzz.runs"] = runs
    merged["counters"]["c03.fuzz.corpus_files"] = len(os.listdir(corpus))
    merged["stage_extra"]["coverage_edges"] = int(cov[-1]) if cov else 0
    ok, vrun = chk.build_variant("dbg")
    for f in sorted(glob.glob(os.path.join(art, "crash-*")) + glob.glob(os.path.join(art, "oom-*")) + glob.glob(os.path.join(art, "timeout-*")))[:20]:
        kind = os.path.basename(f).split("-")[0]
        if kind != "crash":
            merged["inconclusive"].append("libFuzzer %s artifact (not a violation): %s" % (kind, f))
            continue
        sess = ""
        if ok:
            sess = subprocess.run([vrun, "decode-fuzz", f], stdout=subprocess.PIPE, text=True, env=chk.ENV_BASE).stdout.strip()
        # reproduce once to get the report text
        rp = subprocess.run([os.path.join(tdir, "x86_64-unknown-linux-gnu", "release", "ops"), f], stdout=subprocess.PIPE, stderr=subprocess.STDOUT, text=True, env=env)
        tagc = chk.crash_tag(rp.stdout)
        merged["violations"].append({"property": "C03", "clause": "crash", "tag": tagc, "size": len(sess) or 10**6,
                                     "detail": "libFuzzer input %s: %s" % (os.path.basename(f), chk.crash_summary(rp.stdout)),
                                     "replay": {"kind": "session", "session": sess, "variant": "asan"} if sess.startswith("cmd=") else {"kind": "cmd", "cmd": "%s %s" % (os.path.join(tdir, "x86_64-unknown-linux-gnu", "release", "ops"), f)}})
        k = "C03|crash|%s" % tagc
        merged["violation_counts"][k] = merged["violation_counts"].get(k, 0) + 1
    merged["wall"] = time.time() - t0
    return merged


def unsafe_coverage(pid, stage, tier, seed, outdir, chk):
    """Which `unsafe` sites of the crate did the C03 workloads actually execute? (source-based coverage, nightly)"""
    import subprocess, time, glob, re, shutil
    t0 = time.time()
    merged = chk.new_merge()
    merged["stage"] = "coverage/unsafe sites reached by C03-sessions + C03-components"
    merged["stage_extra"] = {}
    tdir = os.path.join(chk.BUILD, "cov")
    prof = os.path.join(outdir, "prof")
    shutil.rmtree(prof, ignore_errors=True)
    os.makedirs(prof, exist_ok=True)
    # proc-macros and build scripts are instrumented too and would drop *.profraw into their cwd (/repo): redirect
    env = dict(chk.ENV_BASE, CARGO_TARGET_DIR=tdir, RUSTFLAGS="-Cinstrument-coverage", LLVM_PROFILE_FILE=os.path.join(outdir, "buildprof", "b-%p-%m.profraw"))
    p = subprocess.run(["cargo", "+nightly", "build", "--offline", "--bin", "vrun"], cwd=chk.HARNESS, env=env, stdout=subprocess.PIPE, stderr=subprocess.STDOUT, text=True)
    if p.returncode != 0:
        merged["inconclusive"].append("coverage build failed: " + p.stdout[-400:])
        return merged
    binary = os.path.join(tdir, "debug", "vrun")
    renv = dict(chk.ENV_BASE, LLVM_PROFILE_FILE=os.path.join(prof, "p-%p-%m.profraw"))
    for wl, scale in (("C03-sessions", "0.2"), ("C03-components", "0.5"), ("C14", "1"), ("C11", "0.02")):
        subprocess.run([binary, wl, "--tier", "quick", "--seed", str(seed), "--scale", scale, "--out", os.path.join(prof, wl + ".json")], env=renv, stdout=subprocess.DEVNULL, stderr=subprocess.DEVNULL, timeout=900)
    sysroot = subprocess.run(["rustc", "+nightly", "--print", "sysroot"], stdout=subprocess.PIPE, text=True).stdout.strip()
    tools = os.path.join(sysroot, "lib", "rustlib", "x86_64-unknown-linux-gnu", "bin")
    pd = os.path.join(prof, "all.profdata")
    r = subprocess.run([os.path.join(tools, "llvm-profdata"), "merge", "-sparse", "-o", pd] + glob.glob(os.path.join(prof, "*.profraw")), stdout=subprocess.PIPE, stderr=subprocess.STDOUT, text=True)
    if r.returncode != 0:
        merged["inconclusive"].append("llvm-profdata failed: " + r.stdout[-300:])
        return merged
    srcs = sorted(glob.glob("/repo/embedded-cli/src/*.rs"))
    r = subprocess.run([os.path.join(tools, "llvm-cov"), "export", "-format=lcov", "-instr-profile", pd, binary] + srcs, stdout=subprocess.PIPE, stderr=subprocess.PIPE, text=True)
    hits = {}
    cur = None
    for line in r.stdout.splitlines():
        if line.startswith("SF:"):
            cur = line[3:]
        elif line.startswith("DA:") and cur:
            ln, cnt = line[3:].split(",")[:2]
            hits[(cur, int(ln))] = max(hits.get((cur, int(ln)), 0), int(cnt))
    sites, reached, missed = 0, 0, []
    for f in srcs:
        lines = open(f).read().splitlines()
        test_at = next((i for i, l in enumerate(lines) if l.startswith("mod tests")), len(lines))
        for i, l in enumerate(lines[:test_at]):
            if re.search(r"\bunsafe\b", l) and "SAFETY" not in l and not l.strip().startswith("//"):
                sites += 1
                # the site counts as reached when its line or one of the next few lines executed
                if any(hits.get((f, i + 1 + d), 0) > 0 for d in range(0, 6)):
                    reached += 1
                else:
                    missed.append("%s:%d" % (os.path.basename(f), i + 1))
    merged["counters"]["c03.unsafe_sites_total"] = sites
    merged["counters"]["c03.unsafe_sites_reached"] = reached
    merged["stage_extra"]["unsafe_sites_not_reached"] = missed
    merged["evaluations"] = sites
    merged["wall"] = time.time() - t0
    return merged



def declbatch_replay(r, chk):
    """Regenerate the batch of a declbatch replay, compile it (same feature set), run the one declaration verbosely."""
    import subprocess, shutil
    ok, vrun = chk.build_variant("dbg")
    if not ok:
        chk.log(vrun)
        return 2
    feats = r.get("features")
    label = "" if feats is None else "-" + (feats.replace(",", "_") or "none")
    prof = r.get("profile")
    if prof:
        label += "-" + prof
    gen = os.path.join(chk.BUILD, "gen-replay" + label)
    tdir = os.path.join(chk.BUILD, "gen-target" + label)
    os.makedirs(os.path.join(gen, "src", "bin"), exist_ok=True)
    cargo_toml = open(os.path.join(chk.ROOT, "orch", "declbatch.Cargo.toml")).read()
    if feats is not None:
        fl = ", ".join('"%s"' % f for f in feats.split(",") if f)
        cargo_toml = cargo_toml.replace('vharness = { path = "../../harness" }', 'vharness = { path = "../../harness", default-features = false, features = [%s] }' % fl)
    open(os.path.join(gen, "Cargo.toml"), "w").write(cargo_toml)
    shutil.copy(os.path.join(chk.HARNESS, "Cargo.lock"), os.path.join(gen, "Cargo.lock"))
    src = os.path.join(gen, "src", "bin", "replay.rs")
    subprocess.run([vrun, "gen-decls", "--seed", str(r["seed"]), str(r["batch"]), str(r["n_full"]), str(r["n_names"]), src], env=chk.ENV_BASE, check=True)
    env = dict(chk.ENV_BASE, CARGO_TARGET_DIR=tdir)
    p = subprocess.run(["cargo", "build", "--offline", "--bin", "replay"] + (["--profile", prof] if prof else []), cwd=gen, env=env)
    if p.returncode != 0:
        return 2
    cmd = [os.path.join(tdir, prof or "debug", "replay"), "--mode", r["mode"], "--tier", r.get("tier", "quick"), "--verbose", "1"] + (["--only", str(r["decl"])] if r.get("decl", -1) >= 0 else [])
    p = subprocess.run(cmd, env=chk.ENV_BASE, stdout=subprocess.PIPE, text=True)
    found = [l for l in p.stdout.splitlines() if l.startswith("FOUND")]
    print(p.stdout[:6000] if found else "(no violation reproduced)")
    for l in found[:20]:
        print(l)
    return 1 if (found or p.returncode != 0) else 0
