"""Custom stages."""
import os, json


def c16_differential(pid, stage, tier, seed, outdir, chk):
    """Run the C16 session workload on all eight feature builds; per-build monitors report
    inside the workers; here the transcripts (sink bytes + flush positions, handler records,
    editor state, hashed per session) are compared across builds for every session that never
    touched a facility in which the two builds differ."""
    total = chk.new_merge()
    total["stage"] = "all-8-feature-builds/C16 + cross-build transcript comparison"
    total["stage_extra"] = {"builds": []}
    per = {}
    from concurrent.futures import ThreadPoolExecutor
    names = sorted(k for k in chk.VARIANTS if k.startswith("feat-"))
    with ThreadPoolExecutor(max_workers=4) as ex:
        for ok, msg in ex.map(chk.build_variant, names):
            if not ok:
                return {"build_error": msg}
    for name in sorted(k for k in chk.VARIANTS if k.startswith("feat-")):
        st = {"variant": name, "workload": "C16", "crash_props": ["C16"]}
        m = chk.run_stage(pid, st, tier, seed, outdir)
        if "build_error" in m:
            # "under every combination the library builds" is part of the property: but a build
            # failure of the harness is indistinguishable here, so it stays a build error
            return m
        per[name] = m.get("transcripts", {})
        total["stage_extra"]["builds"].append({"build": name, "sessions": m["cases"], "violations": sum(m["violation_counts"].values())})
        chk.merge_merged(total, m)
    full = per.get("feat-111", {})
    compared = 0
    skipped = 0
    for name, tr in per.items():
        if name == "feat-111":
            continue
        bits = name.split("-")[1]
        # facility mask of what this build lacks: bit0 history(Up/Down) bit1 autocomplete(Tab) bit2 help
        lacking = (0 if bits[0] == "1" else 1) | (0 if bits[1] == "1" else 2) | (0 if bits[2] == "1" else 4)
        for key, (touched, h) in tr.items():
            if key not in full:
                continue
            ftouched, fh = full[key]
            if (touched | ftouched) & lacking:
                skipped += 1
                continue
            compared += 1
            if h != fh:
                shard, idx = key.split(":")
                tag = "transcript-differs-%s" % name
                v = {"property": "C16", "clause": "cross-build", "tag": tag, "size": 1,
                     "detail": "session %s of shard %s never uses a facility that %s lacks, yet its transcript (sink bytes, flushes, handler records, editor state) differs from the all-features build" % (idx, shard, name),
                     "replay": {"kind": "case", "workload": "C16", "variant": name, "tier": tier, "seed": seed, "shard": int(shard), "nshards": chk.NCPU, "case": int(idx), "args": []}}
                k = "C16|cross-build|%s" % tag
                total["violation_counts"][k] = total["violation_counts"].get(k, 0) + 1
                if total["violation_counts"][k] <= 3:
                    total["violations"].append(v)
    total["counters"]["c16.transcripts_compared"] = compared
    total["counters"]["c16.transcripts_not_comparable(touch a disabled facility)"] = skipped
    total["evaluations"] += compared
    return total
