#!/usr/bin/env python3
"""mkprompt.py <prefix> <PROPERTY-ID> [n] -- text of the task given to an independent sub-agent that seeds a property-breaking
change in its own scratch worktree /tmp/<prefix>-<ID>.  Only the property text is handed over, nothing from /verif."""
import json, sys
prefix, pid = sys.argv[1], sys.argv[2]
n = sys.argv[3] if len(sys.argv) > 3 else "1"
two = n == "2x"
p = [json.loads(l) for l in open("/verif/properties.jsonl") if l.strip()]
p = [x for x in p if x["id"] == pid][0]
wt = "/tmp/%s-%s" % (prefix, pid)
print(f"""You are helping test a verification framework by creating a realistic *seeded defect*. Work ONLY inside the git worktree at {wt} (a checkout of the Rust repository funbiscuit/embedded-cli-rs: a no_std command-line interface library: byte-stream input decoding, UTF-8 line editor, history buffer, tokenizer, argument parser, derive macros). Do not read or write anything under /verif or /repo, and do not look at other /tmp/seed* directories. The sandbox is offline: always pass --offline to cargo (e.g. `cargo test --workspace --offline`). Use `CARGO_TARGET_DIR={wt}/target`.

Here is a semantic property that the library is supposed to satisfy:

TITLE: {p['title']}
STATEMENT: {p['statement']}
QUANTIFIER: {p['quantifier']['text']}

Your task: make a change to the library source (embedded-cli/src/** or embedded-cli-macros/src/**; NOT the tests) that BREAKS this property while (1) the workspace still compiles without new warnings, and (2) the ENTIRE existing test suite still passes (`cargo test --workspace --offline` all green with your change). Make it as SUBTLE as you can. Strongly prefer one of these shapes over a plain off-by-one at the most obvious site:
  - two cooperating edits at different sites that each look fine (even like an improvement) alone, and only together break the property;
  - a state-dependent bug that needs a sequence of at least three specific operations to manifest (e.g. a particular order of edit / recall / completion / application-write / prompt-change / submit steps, or a particular earlier history of the session), and is invisible in shorter sessions;
  - a bug that depends on a rare coincidence of sizes (a buffer exactly full, a name exactly as long as ..., a line ending exactly at ...), of character widths, or of which optional feature set is compiled;
  - a bug in a less-travelled part of the code that still falls under this property (the derive macros' generated code, the Writer, history navigation state, autocompletion merging, help rendering, the builder / deprecated constructor, error paths).
It must NOT be something that ordinary short use would expose at once (typing `abc<Enter>` into a default-size CLI must still work), and it must look like something a developer could plausibly write.

{"Deliver TWO such changes, independent of each other (different mechanisms, different sites -- different source files if the property allows it, and at least one of them NOT in the file most obviously responsible for this property), each relative to a clean HEAD, under " + wt + "/seeded/1/ and " + wt + "/seeded/2/, each directory holding:" if two else "Deliver ONE such change under " + wt + "/seeded/" + n + "/ :"}
  - patch.diff : `git diff` of the library change only (relative to HEAD), applicable with `git apply` at the repo root;
  - demo.rs : a Rust integration test file, using only the crate's public API and self-contained (it is run by copying it to embedded-cli/tests/seed_demo.rs and running `cargo test -p embedded-cli --offline --test seed_demo`), that FAILS with the change applied and PASSES without it;
  - notes.md : which clause of the property is broken, what exactly is needed for it to manifest (the trigger), and confirmation (command output summary) that the full existing test suite passes with the change and that the demonstration fails with it and passes without it.
Verify all of that yourself by actually running the commands. Leave the worktree source at HEAD (unmodified; `git checkout -- .` for tracked files, remove any test file you copied in) when you are done, keeping only the seeded/ directory. In your final answer, summarise the patch in 4-5 lines (sites, mechanism, trigger). Do not spend effort on anything else.""")
