#!/usr/bin/env python3
"""keepseed.py <seed worktree dir>/seeded/<n> <id> <property> <caught-by csv> <missed-by csv> -- copies patch, demo, notes; writes meta.json"""
import sys, os, shutil, json, re
src, sid, prop, caught, missed = sys.argv[1:6]
dst = os.path.join("/verif/seeded", sid)
os.makedirs(dst, exist_ok=True)
for f in os.listdir(src):
    shutil.copy(os.path.join(src, f), os.path.join(dst, f))
notes = open(os.path.join(src, "notes.md")).read() if os.path.exists(os.path.join(src, "notes.md")) else ""
demo = [f for f in os.listdir(src) if f.endswith(".rs")]
meta = {
    "id": sid, "breaks_property": prop,
    "needs_to_manifest": (re.search(r"(?is)trigger[^\n]*\n(.{0,900})", notes).group(1).strip() if re.search(r"(?i)trigger", notes) else "see notes.md"),
    "demonstration": demo, "how_to_run_demo": "cp %s embedded-cli/tests/seed_demo.rs && cargo test -p embedded-cli --offline --test seed_demo (fails with patch.diff applied, passes without)" % (demo[0] if demo else "?"),
    "confirmed": "orch/confirm_seed.sh in the scratch worktree: full suite (117+55 tests) passes with the patch; demo fails with it and passes without it",
    "checks_run": "orch/seedtest.py (git -C /repo apply; ./check <ID> --tier quick; git -C /repo checkout -- .)",
    "caught_by": [c for c in caught.split(",") if c], "not_caught_by_own_property_before_strengthening": [c for c in missed.split(",") if c],
}
json.dump(meta, open(os.path.join(dst, "meta.json"), "w"), indent=1, ensure_ascii=False)
print("kept", dst)
