#!/usr/bin/env python3
"""Regression over every kept seeded change: apply it to /repo, run the check of the property it breaks (quick),
restore /repo, and report which seeds are caught.  usage: orch/seeds_all.py [--all-props] [seed-id-prefix ...]"""
import sys, os, json, glob, subprocess, time
ROOT = os.path.dirname(os.path.dirname(os.path.abspath(__file__)))
args = [a for a in sys.argv[1:] if not a.startswith("--")]
allprops = "--all-props" in sys.argv
res = {}
for meta in sorted(glob.glob(os.path.join(ROOT, "seeded", "*", "meta.json"))):
    m = json.load(open(meta))
    if args and not any(m["id"].startswith(a) for a in args):
        continue
    patch = os.path.join(os.path.dirname(meta), "patch.diff")
    props = ["C%02d" % i for i in range(1, 18)] if allprops else [m["breaks_property"]]
    t0 = time.time()
    o = subprocess.run([os.path.join(ROOT, "orch", "seedtest.py"), patch] + props, stdout=subprocess.PIPE, stderr=subprocess.STDOUT, text=True)
    caught = [l for l in o.stdout.splitlines() if l.startswith("CAUGHT BY:")]
    c = eval(caught[0].split(":", 1)[1]) if caught else []
    res[m["id"]] = c
    print("%-48s own=%s caught_by=%s (%.0fs)" % (m["id"], "CAUGHT" if m["breaks_property"] in c else "MISSED", ",".join(c), time.time() - t0), flush=True)
missed = [k for k, v in res.items() if k.split("-")[0] not in v]
print("\n%d seeds, %d missed by their own property's check: %s" % (len(res), len(missed), missed))
mpath = os.path.join(ROOT, "seeded", "last_matrix.json")
try:
    allres = json.load(open(mpath))
except Exception:
    allres = {}
allres.update(res)  # a partial run refreshes its seeds only
json.dump(dict(sorted(allres.items())), open(mpath, "w"), indent=1)
sys.exit(1 if missed else 0)
