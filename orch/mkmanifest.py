#!/usr/bin/env python3
"""Regenerates /verif/MANIFEST.json from orch/plan.py (single source of truth)."""
import json, os, sys
ROOT = os.path.dirname(os.path.dirname(os.path.abspath(__file__)))
sys.path.insert(0, os.path.join(ROOT, "orch"))
from plan import PLANS, MANIFEST_TEXT, NOT_APPLICABLE

props = [json.loads(l)["id"] for l in open(os.path.join(ROOT, "properties.jsonl"))]
checks = []
for pid in props:
    if pid not in PLANS:
        continue
    t = MANIFEST_TEXT[pid]
    checks.append({
        "property_id": pid,
        "quick_cmd": "./check %s --tier quick" % pid,
        "thorough_cmd": "./check %s --tier thorough" % pid,
        "evidence_file": "/verif/evidence/%s.json" % pid,
        "replay_cmd_template": "./check %s --replay {path}" % pid,
        "engine": "vrun",
        "level_claimed": {"category": PLANS[pid]["level"], "text": t["text"], "design_ref": t["design_ref"]},
        "level_note": t["note"],
        "technique": t["technique"],
    })
na = [{"property_id": p, "reason": NOT_APPLICABLE.get(p, "check not built yet in this round; see DESIGN.md")} for p in props if p not in PLANS]
man = {
    "version": 1,
    "setup_cmd": "./setup.sh",
    "hooks": {
        "guard": "cargo feature `verif-hooks` of the embedded-cli crate (off by default)",
        "enable": "the harness crate /verif/harness depends on embedded-cli = { path = \"/repo/embedded-cli\", features = [\"verif-hooks\", ...] }",
        "baseline_off_cmd": "cd /repo && cargo test --workspace --no-fail-fast --offline",
        "source_commits": ["a966200"],
        "add_only": True,
    },
    "engines": [
        {"name": "vrun", "path": "/verif/harness", "serves_properties": [c["property_id"] for c in checks],
         "kind_free_text": "Rust harness linking the real crate from /repo: monitored sessions (MonSink, recording processor, shadow decoder, terminal emulator, hook reader) with reference models in lockstep, component enumerations, fault enumeration; run as sharded worker processes under dbg (ub_checks), ASan, Miri and valgrind builds by the python orchestrator ./check"},
    ],
    "checks": checks,
    "not_applicable": na,
    "notes": "Technique family: runtime monitoring and sanitizers. Verdicts are three-valued: exit 0 held on what was observed, exit 1 violation (VIOLATION line + replay file), exit 2 inconclusive/harness error (never reported as a violation). known_findings.json lists genuine defects (status known/fixed).",
}
json.dump(man, open(os.path.join(ROOT, "MANIFEST.json"), "w"), indent=1, ensure_ascii=False)
print("MANIFEST.json: %d checks, %d not applicable" % (len(checks), len(na)))
