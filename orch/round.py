#!/usr/bin/env python3
"""dev helper: process one round of seeded changes.  usage: orch/round.py <prefix> [--sb /tmp/sb] [--only C01,C02] [--extra C05,C06]
For every /tmp/<prefix>-<ID>/seeded/<n>: confirm it (orch/confirm_seed.sh, in parallel), then run the own property's quick check
against it in the sandbox copy (orch/sandbox.sh), sequentially.  Results: /tmp/<prefix>-results.json"""
import sys, os, glob, subprocess, json, re
from concurrent.futures import ThreadPoolExecutor
prefix = sys.argv[1]
sb = "/tmp/sb"
only = None
extra = []
a = sys.argv[2:]
while a:
    if a[0] == "--sb": sb = a[1]; a = a[2:]
    elif a[0] == "--only": only = a[1].split(","); a = a[2:]
    elif a[0] == "--extra": extra = a[1].split(","); a = a[2:]
    else: a = a[1:]
ROOT = os.path.dirname(os.path.dirname(os.path.abspath(__file__)))
out = "/tmp/%s-results.json" % prefix
res = json.load(open(out)) if os.path.exists(out) else {}
seeds = []
for d in sorted(glob.glob("/tmp/%s-*/seeded/*/patch.diff" % prefix)):
    wt = d.split("/seeded/")[0]; n = d.split("/seeded/")[1].split("/")[0]
    pid = wt.split("-")[-1]
    if only and pid not in only: continue
    seeds.append((pid, wt, n))
def keyof(s):
    return "%s/%s" % (os.path.basename(s[1])[len(prefix) + 1:], s[2])
def confirm(s):
    pid, wt, n = s
    key = keyof(s)
    if res.get(key, {}).get("confirmed") is not None: return key, res[key]["confirm_out"]
    demo = [f for f in os.listdir("%s/seeded/%s" % (wt, n)) if f.endswith(".rs")]
    o = subprocess.run([os.path.join(ROOT, "orch", "confirm_seed.sh"), wt, n] + demo[:1], stdout=subprocess.PIPE, stderr=subprocess.STDOUT, text=True).stdout
    return key, o
def confirm_wt(group):
    return [confirm(s) for s in group]  # one worktree: one after the other
groups = {}
for s in seeds:
    groups.setdefault(s[1], []).append(s)
with ThreadPoolExecutor(max_workers=6) as ex:
    for key, o in [x for g in ex.map(confirm_wt, list(groups.values())) for x in g]:
        parts = re.split(r"(?m)^== [^\n]*\n", o)
        ok = False
        if len(parts) >= 4:
            suite, withp, without = parts[1], parts[2], parts[3]
            ok = ("FAILED" not in suite and "error" not in suite and "test result: ok" in suite
                  and ("FAILED" in withp or "error" in withp) and "test result: ok" in without and "FAILED" not in without)
        res.setdefault(key, {})["confirmed"] = ok
        res[key]["confirm_out"] = o
        print("%s confirmed=%s" % (key, ok), flush=True)
        json.dump(res, open(out, "w"), indent=1)
for pid, wt, n in seeds:
    key = keyof((pid, wt, n))
    if not res[key]["confirmed"]: continue
    props = [pid] + [e for e in extra if e != pid]
    todo = [p for p in props if p not in res[key].get("checks", {})]
    if not todo: continue
    o = subprocess.run([os.path.join(sb, "verif", "orch", "seedtest.py"), "%s/seeded/%s/patch.diff" % (wt, n)] + todo, stdout=subprocess.PIPE, stderr=subprocess.STDOUT, text=True).stdout
    for l in o.splitlines():
        m = re.match(r"(C\d\d) rc=(\d+) (\d+)s (.*)", l)
        if m:
            res[key].setdefault("checks", {})[m.group(1)] = {"rc": int(m.group(2)), "s": int(m.group(3)), "line": m.group(4)[:600]}
    print("%s %s" % (key, " ".join("%s:rc=%s" % (p, res[key].get("checks", {}).get(p, {}).get("rc")) for p in props)), flush=True)
    json.dump(res, open(out, "w"), indent=1)
