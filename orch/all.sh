#!/bin/sh
# run every check at the given tier/seed, print one line per check
tier=${1:-quick}; seed=${2:-1}
cd "$(dirname "$0")/.."
for p in C01 C02 C03 C04 C05 C06 C07 C08 C09 C10 C11 C12 C13 C14 C15 C16 C17; do
  s=$(date +%s)
  out=$(VERIF_SEED=$seed ./check $p --tier $tier 2>/dev/null); rc=$?
  e=$(date +%s)
  echo "$p rc=$rc $((e-s))s $(echo "$out" | grep -E 'HELD|VIOLATION|INCONCLUSIVE|KNOWN' | head -3 | tr '\n' ' ' | cut -c1-400)"
done
